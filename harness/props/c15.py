"""C15 — redirect-binding signatures bind the exact query and the signer's own key.

Units (model vs implementation, real RSA through `cryptography`, keys in harness/keys):
  sign_string     the octet string pack.http_redirect_message hands to signer.sign (recording signer) and the
                  parameters of the produced URL                        vs Model.Redirect.http_redirect_message
  verify_string   the octet string verify_redirect_signature hands to signer.verify (recording crypto object)
                                                                        vs Model.Redirect.verify_string
  verify_sweep    Entity.apply_binding(BINDING_HTTP_REDIRECT, sign=True, sigalg=...) -> parse_qsl -> single-parameter
                  mutation -> verify_redirect_signature under every candidate certificate / verifying entity
                                                                        vs Model.Redirect.verify_redirect_signature
  schedule        interleavings of get_signer / sign / apply_binding / verify steps of two or three differently
                  keyed entities executed sequentially in one thread (exhaustive up to a bounded length + random
                  longer ones); which certificate verifies every produced signature
                                                                        vs Model.Redirect.run_script (the LTS)
  threads         (thorough) two real threads inside apply_binding, forced to meet between get_signer and sign
Implementation-level oracle (the property itself, no model): own certificate verifies, no other certificate does,
every listed mutation stops verification, unsupported / missing algorithm never verifies, every Sign step's
signature verifies under the signing entity's certificate; plus an independent `cryptography` verification of
the URL text as the SAML binding specifies it.
"""
import base64
import itertools
import json
import sys
import threading
import urllib.parse

import env
import translate_c15
from core import Exn, cstr, cbool, clist, copt
from saml2_tophat import BINDING_HTTP_REDIRECT, pack, sigver, s_utils
from saml2_tophat.sigver import verify_redirect_signature, RSACrypto

CLAIM = {
    "text": "Coq theorems (Props/C15.v) over a model of SIGNER_ALGS / RSACrypto.get_signer / RSASigner / pack.http_redirect_message / Entity.apply_binding / verify_redirect_signature with symbolic RSA, instantiated with the order tables, SIGNER_ALGS key set, SIG_ALLOWED_ALG and the urlencode flavour of each module REGENERATED from the source on every run: (1) for ALL byte strings: any query carrying a Signature value made over (kind, message value, RelayState present/absent, SigAlg) that verifies under ANY certificate, in any verifier state, has the signer's key as that certificate and exactly those four items (injectivity of the octet-string construction from the C14 codec lemmas), hence no other certificate and no single-parameter mutation verifies; unsupported / missing algorithm and missing / foreign Signature never verify, and neither does a candidate certificate text that cannot be read as a certificate, whoever verifies (C15_unreadable_cert_never_verifies); a signed query verifies under the signer's certificate for every supported algorithm, message value and RelayState (C15_own_cert_verifies: FULL statement, proved for today's regenerated encoder flags; before the repair 2c15a188 the two modules' urlencode differed on the tilde - witness C15_own_cert_verifies_refuted under that hypothesis); (2) for EVERY trace of the transition system (any entities, length, interleaving, any state at signing time) a Sign step made with a handle an entity obtained uses that entity's own key (C15_own_key_any_schedule: FULL statement, proved for today's regenerated flag 'get_signer returns a fresh signer'); for the shared-object behaviour before the repair 8429fa3f the file keeps the exact characterisation (a Sign uses the key last stored by anybody, induction over the trace) and the refutation by A.get_signer; B.get_signer (or B verifying); A.sign, both under the hypothesis that the flag says shared. Whether get_signer shares the module-level object and whether the two modules use the same urlencode are regenerated flags the model follows; C15_schedule_status / C15_encoder_status prove the FULL statements for the actual tables as soon as a repair flips a flag. Tie to the code: exhaustive bounded interleavings of two/three differently keyed real entities with real RSA, and an all-algorithms x request/response x mutation sweep through Entity.apply_binding and verify_redirect_signature, compared with the model on every run.",
    "note": "Trusted: Coq kernel + vm_compute; symbolic RSA (unforgeability and digest distinctness are the assumption, real RSA/SHA enter only through the correspondence runs); the reflection translator harness/translate_c15.py; the hand-written model, tied to the code by the correspondence units. The message parameter VALUE (deflate+base64 of the message) is the model's input: zlib/base64 are C14's. Thread schedules are covered at the granularity of the three shared-state operations (get_signer, sign, verify); the real-thread run is supporting evidence. Two defects found by this check were repaired in /repo (fix: 8429fa3f shared signer object, fix: 2c15a188 tilde in RelayState; known_findings.json 'fixed'); if either returns, C15_own_key_any_schedule / C15_own_cert_verifies stop compiling against the regenerated flags and the schedule / sweep oracles produce the replay. Parameters not named in REQ_ORDER/RESP_ORDER are not covered by the signature (an unsigned extra parameter, including a SAMLResponse added next to a signed SAMLRequest, is ignored by verification): modelled, outside the statement.",
    "technique": "machine-checked proof (Coq: injectivity over all strings, induction over all traces) + regenerated-table obligations + deterministic step-sequencing correspondence with real RSA + mutation sweep",
}
TRUSTED = [
    "Gen/RedirectConsts.v is regenerated by reflection from pack/sigver REQ_ORDER, RESP_ORDER, SIGNER_ALGS (keys and digest names), SIG_ALLOWED_ALG, a 256-byte measurement of pack.urlencode / sigver.urlencode and a sentinel-key measurement of RSACrypto.get_signer (shared object vs fresh signer) (harness/translate_c15.py)",
    "symbolic RSA: a signature value records key, digest and the exact octet string; verification succeeds iff all three agree (unforgeability, distinct digests never collide)",
    "modelled: RSACrypto.get_signer, RSASigner.sign/verify key selection, http_redirect_message signing branch, apply_binding redirect branch, verify_redirect_signature; NOT modelled: deflate/base64 of the message (C14), X.509 parsing, UTF-8 encoding of str values (done by the harness)",
    "the harness names which key made a Signature value it feeds back unaltered (provenance); real RSA verification under every candidate certificate is the comparison",
]
ASSUMPTIONS = [
    "bytes are < 256 (Forall byte) in the binding theorems",
    "thread switches inside RSASigner.sign / verify are not finer-grained than the model's steps (each reads the key once)",
    "parameters outside REQ_ORDER/RESP_ORDER are not signed (extra unsigned parameters do not affect verification)",
]
RULE = ("verify_sweep: every SIGNER_ALGS key x request/response x RelayState class x every single-parameter mutation x candidate certificates "
        "x verifying entity; schedule: every sequence up to the bounded length over {get_signer, sign, apply_binding, verify} x entities, plus "
        "random longer ones over three entities and two algorithms (one long-lived process state: sequences run back to back). Non-trivial = a "
        "real RSA signature was produced and checked under at least two certificates, or a mutation was applied; distinct by content.")

KEYID = {"sp": 1, "idp": 2, "other": 3}
DEST = "https://idp.example.org/sso"
MSG = "<samlp:AuthnRequest xmlns:samlp='urn:oasis:names:tc:SAML:2.0:protocol' ID='id-1' Version='2.0'/>"
MSG2 = "<samlp:AuthnRequest xmlns:samlp='urn:oasis:names:tc:SAML:2.0:protocol' ID='id-2' Version='2.0'/>"
UNSUPPORTED = ["http://www.w3.org/2000/09/xmldsig#dsa-sha1", "bogus", "http://www.w3.org/2001/04/xmldsig-more#RSA-SHA256"]

_ents = {}


def entities():
    if not _ents:
        env.tool_inprocess(True)
        _ents["sp"] = env.make_sp()
        _ents["idp"] = env.make_idp()
        _ents["other"] = env.make_sp(entityid="https://other.example.org/sp", key_file=env.key("other"), cert_file=env.cert("other"))
    return _ents


CERTS = {}


def certs():
    if not CERTS:
        for n in KEYID:
            CERTS[n] = env.cert_b64(n)
    return CERTS


def regen(ctx):
    translate_c15.regen_redirect()


_ORACLE_ONLY = [False]


def correspond(ctx, unit, imports, model, ctype, cases, shard):
    """ctx.correspond, but a shard whose coqc was KILLED or timed out (machine under memory pressure: rc 137 /
    124 / -9) is evaluated again, in smaller pieces, before it counts as a broken obligation.  A Coq error is
    never retried."""
    if _ORACLE_ONLY[0]:
        return
    import re
    n0 = len(ctx.broken)
    ctx.correspond(unit, imports, model, ctype, cases, shard=shard)
    for attempt in range(3):
        killed = [b for b in ctx.broken[n0:] if b[0] == "model-evaluation:" + unit and re.search(r"rc=(137|124|-9|143)\b", b[1])]
        if not killed:
            break
        todo = []
        for bk in killed:
            ctx.broken.remove(bk)
            m = re.search(r"cases_.*_(\d+)\.v", bk[1])
            k = int(m.group(1))
            todo += cases[k:k + shard]
            ctx.evaluations -= 0
        ctx.notes.append("unit %s: %d shard(s) killed/timed out by the machine, evaluated again (attempt %d)" % (unit, len(killed), attempt + 1))
        import time
        time.sleep(5 * (attempt + 1))
        cases, shard = todo, max(20, shard // 3)
        n0 = len(ctx.broken)
        ctx.correspond(unit + "_retry%d" % (attempt + 1), imports, model, ctype, cases, shard=shard)
        unit = unit + "_retry%d" % (attempt + 1)


def _exn(e):
    return Exn(type(e).__name__)


def _call(f, *a, **k):
    try:
        return f(*a, **k)
    except Exception as e:  # noqa
        return _exn(e)


def b(s):
    return s.encode("utf-8") if isinstance(s, str) else s


def cpairs(ps):
    return clist(ps, lambda kv: "(%s, %s)" % (cstr(b(kv[0])), cstr(b(kv[1]))))


def query_of(url):
    """the query of a Location URL as the dict verify_redirect_signature wants (single values, order kept)"""
    return dict(urllib.parse.parse_qsl(url.split("?", 1)[1], keep_blank_values=True))


def location(info):
    return dict(info["headers"])["Location"]


def supported_algs():
    return list(sigver.SIGNER_ALGS)


# ------------------------------------------------------------------ shared-state hygiene for OBSERVATIONS
class Quiet(object):
    """observe with pysaml2's own verifier without leaving a trace in the shared table"""

    def __enter__(self):
        self.saved = [(s, s.key) for s in sigver.SIGNER_ALGS.values() if hasattr(s, "key")]

    def __exit__(self, *a):
        for s, k in self.saved:
            s.key = k


def who_verifies(q):
    """names of the certificates under which pysaml2 itself verifies q (observation only)"""
    out = []
    with Quiet():
        for n, c in certs().items():
            if _call(verify_redirect_signature, dict(q), RSACrypto(None), c) is True:
                out.append(n)
    return out


_PUB = {}


def independent_verifies(url, name):
    """SAML bindings 3.4.4.1: the signature is over the URL text `<msg>=v[&RelayState=v]&SigAlg=v` as sent"""
    from cryptography.hazmat.primitives import hashes
    from cryptography.hazmat.primitives.asymmetric import padding
    from cryptography import x509
    query = url.split("?", 1)[1]
    if "&Signature=" not in query:
        return None
    signed, sig = query.rsplit("&Signature=", 1)
    alg = urllib.parse.unquote_plus(signed.rsplit("SigAlg=", 1)[1])
    h = {"sha1": hashes.SHA1, "sha224": hashes.SHA224, "sha256": hashes.SHA256, "sha384": hashes.SHA384, "sha512": hashes.SHA512}.get(alg.rsplit("-", 1)[-1])
    if h is None:
        return None
    if name not in _PUB:
        with open(env.cert(name), "rb") as fh:
            _PUB[name] = x509.load_pem_x509_certificate(fh.read()).public_key()
    pub = _PUB[name]
    try:
        pub.verify(base64.b64decode(urllib.parse.unquote_plus(sig)), signed.encode("ascii"), padding.PKCS1v15(), h())
        return True
    except Exception:  # noqa
        return False


# ------------------------------------------------------------------ unit: sign_string
class RecSigner(object):
    def __init__(self):
        self.seen = []

    def sign(self, msg, key=None):
        self.seen.append(msg)
        return b"\x01\x02recorded"

    def verify(self, msg, sig, key=None):
        self.seen.append(msg)
        return False


RELAYS = ["", "rs-1", "a b&c=d/e", "x~y", "~", "é😀 +%41", "&Signature=abc&SigAlg=evil", "RelayState=1", "a\nb\t\"'<>", "%7E", "A" * 90]


def unit_sign_string(ctx):
    algs = supported_algs()
    cases_s, cases_p = [], []
    relays = list(RELAYS)
    for _ in range(40 if ctx.quick else 1500):
        relays.append("".join(ctx.rng.choice(["~", "&", "=", "%", "+", " ", "é", "/", "a", "Z", "7", "E", ".", "-", "_", "*", "\x7f"]) for _ in range(ctx.rng.randint(1, 12))))
    typs = ["SAMLRequest", "SAMLResponse"]
    i = 0
    for rs in relays:
        for typ in typs:
            alg = algs[i % len(algs)]
            i += 1
            rec = RecSigner()
            info = _call(pack.http_redirect_message, MSG, DEST, rs, typ, sigalg=alg, signer=rec)
            if isinstance(info, Exn) or len(rec.seen) != 1:
                ctx.oracle_fail("sign-raises:%s" % (info.name if isinstance(info, Exn) else "no-sign-call"), "http_redirect_message did not sign (%r)" % (info,),
                                dict(unit="sign_string", rs=rs, typ=typ, alg=alg))
                continue
            ps = urllib.parse.parse_qsl(location(info).split("?", 1)[1], keep_blank_values=True)
            m = dict(ps).get(typ, "")
            arg = "(%s, %s, %s, %s)" % (cstr(typ), cstr(b(m)), cstr(b(rs)), cstr(alg))
            cases_s.append(dict(id=len(cases_s), coq=arg, impl=rec.seen[0], show=dict(typ=typ, rs=rs, alg=alg)))
            cases_p.append(dict(id=len(cases_p), coq=arg, impl=[[b(k), b(v)] for k, v in ps if k != "Signature"], show=dict(typ=typ, rs=rs, alg=alg)))
            if rs:
                ctx.nontriv(("sign_string", typ, rs, alg))
            ctx.count("sign_string:" + ("tilde" if "~" in rs else "plain"))
    # error branches of the signing function
    recx = RecSigner()
    for typ, alg, signer in [("SAMLart", algs[0], recx), ("SAMLart", algs[0], None), ("Other", algs[0], recx), ("SAMLRequest", "bogus", recx),
                             ("SAMLRequest", "", recx), ("SAMLRequest", algs[0], None), ("SAMLResponse", UNSUPPORTED[0], recx)]:
        info = _call(pack.http_redirect_message, "artifact-or-message", DEST, "rs", typ, sigalg=alg, signer=signer)
        if isinstance(info, Exn):
            impl = info
        else:
            impl = [[b(k), b(v)] for k, v in urllib.parse.parse_qsl(location(info).split("?", 1)[1], keep_blank_values=True) if k != "Signature"]
        m = "artifact-or-message" if typ == "SAMLart" or isinstance(info, Exn) else dict(map(tuple, impl)).get(b(typ), b"").decode()
        cases_p.append(dict(id=len(cases_p), impl=impl, show=dict(typ=typ, alg=alg, signer=signer is not None),
                            coq="(%s, %s, %s, %s, %s)" % (cstr(typ), cstr(b(m)), cstr("rs"), cstr(alg), cbool(signer is not None))))
    sign_state = "(all_keys actual (Some 1))"
    correspond(ctx, "sign_string", "Model.Redirect",
                   "fun c => match c with (typ, m, rs, alg) => match http_redirect_message actual %s typ m rs alg (Some (alg, Some 1)) with "
                   "Ok {| q_sig := Some (SigOf s) |} => VS (sg_msg s) | Ok _ => VNone | Err e => VE e end end" % sign_state,
                   "(str * str * str * str)", cases_s, shard=200)
    n4 = len(cases_s)
    correspond(ctx, "sign_params", "Model.Redirect",
                   "fun c => match c with (typ, m, rs, alg) => show_result (fun q => show_params (q_params q)) "
                   "(http_redirect_message actual %s typ m rs alg (Some (alg, Some 1))) end" % sign_state,
                   "(str * str * str * str)", cases_p[:n4], shard=200)
    correspond(ctx, "sign_errors", "Model.Redirect",
                   "fun c => match c with (typ, m, rs, alg, sg) => show_result (fun q => show_params (q_params q)) "
                   "(http_redirect_message actual %s typ m rs alg (if (sg : bool) then Some (alg, Some 1) else None)) end" % sign_state,
                   "(str * str * str * str * bool)", cases_p[n4:], shard=200)


# ------------------------------------------------------------------ unit: verify_string
class RecCrypto(object):
    """duck-typed crypto object: follows the real table for 'is this algorithm known', records the string"""

    def __init__(self):
        self.rec = RecSigner()

    def get_signer(self, sigalg, sigkey=None):
        with Quiet():
            real = RSACrypto(None).get_signer(sigalg, sigkey)
        return None if real is None else self.rec


def unit_verify_string(ctx):
    algs = supported_algs()
    cases = []
    vals = ["v", "a~b", "x y+z", "é", "&=%", "", "A-Z_a.z~0"]
    n = 0
    for typs in (["SAMLRequest"], ["SAMLResponse"], ["SAMLResponse", "SAMLRequest"], []):
        for rs in [None] + vals:
            for extra in (False, True):
                n += 1
                alg = algs[n % len(algs)]
                q = {}
                if extra and n % 2:
                    q["Zextra"] = "1"
                for t in typs:
                    q[t] = vals[(n + len(t)) % len(vals)] or "m"
                if rs is not None:
                    q["RelayState"] = rs
                q["SigAlg"] = alg
                q["Signature"] = "AAAA"
                if extra and not n % 2:
                    q["Signature2"] = "x~"
                rc = RecCrypto()
                r = _call(verify_redirect_signature, dict(q), rc, certs()["sp"])
                impl = r if isinstance(r, Exn) else (rc.rec.seen[0] if rc.rec.seen else None)
                ps = [(k, v) for k, v in q.items() if k != "Signature"]
                cases.append(dict(id=len(cases), coq=cpairs(ps), impl=impl, show=q))
                ctx.nontriv(("verify_string", tuple(q.items())))
    correspond(ctx, "verify_string", "Model.Redirect",
                   "fun ps => match verify_order actual ps with Some o => VS (verify_string actual o ps) | None => VE Unsupported end",
                   "(list (str * str))", cases, shard=200)


# ------------------------------------------------------------------ unit: verify_sweep
def flip(s, i=5):
    i = min(i, len(s) - 1)
    c = "B" if s[i] != "B" else "C"
    return s[:i] + c + s[i + 1:]


def mutations(q, typ, rs, alg, algs, sname, oname, donor_same, donor_other):
    """(name, entity whose Signature value the query carries, intact?, mutated query).
    intact = the query is exactly what that entity signed (so it must verify under that entity's certificate
    and no other); not intact = one of the mutations the property lists (must verify under NO certificate).
    q is never modified."""
    other_typ = "SAMLResponse" if typ == "SAMLRequest" else "SAMLRequest"
    out = [("none", sname, True, dict(q))]

    def mut(name, **ch):
        d = dict(q)
        for k, v in ch.items():
            if v is None:
                d.pop(k, None)
            else:
                d[k] = v
        out.append((name, sname, False, d))
    alt = s_utils.deflate_and_base64_encode(MSG2)
    mut("msg-replaced", **{typ: alt.decode() if isinstance(alt, bytes) else alt})
    mut("msg-one-char", **{typ: flip(q[typ])})
    mut("msg-truncated", **{typ: q[typ][:-4]})
    if rs:
        mut("rs-changed", RelayState=rs + "x")
        mut("rs-case", RelayState=rs.swapcase() if rs.swapcase() != rs else rs + "A")
        mut("rs-removed", RelayState=None)
        mut("rs-emptied", RelayState="")
        mut("rs-space", RelayState=rs + " ")
    else:
        mut("rs-added", RelayState="injected")
        mut("rs-added-empty", RelayState="")
    for a2 in algs:
        if a2 != alg:
            mut("alg-swapped:" + a2.rsplit("-", 1)[-1], SigAlg=a2)
    mut("alg-removed", SigAlg=None)
    for u in UNSUPPORTED + [""]:
        mut("alg-unsupported:%s" % (u or "empty"), SigAlg=u)
    mut("sig-one-char", Signature=flip(q["Signature"]))
    mut("sig-bad-padding", Signature=q["Signature"].rstrip("=")[:-1])
    mut("sig-removed", Signature=None)
    mut("sig-empty", Signature="")
    mut("sig-of-other-message", Signature=donor_same["Signature"])
    d = dict(q)
    d[other_typ] = d.pop(typ)
    out.append(("relabelled-as-" + other_typ, sname, False, d))
    d = dict(q)
    d.pop(typ)
    out.append(("message-removed", sname, False, d))
    # not mutations in the property's sense: the signed items are untouched
    out.append(("sig-of-other-entity", oname, True, dict(q, Signature=donor_other["Signature"])))
    out.append(("reordered", sname, True, dict(reversed(list(q.items())))))
    out.append(("reordered-sig-first", sname, True, dict([("Signature", q["Signature"])] + [(k, v) for k, v in q.items() if k != "Signature"])))
    out.append(("extra-unsigned-param", sname, True, dict(q, Zextra="1")))
    return out


def unit_verify_sweep(ctx):
    ents = entities()
    algs = supported_algs()
    cs = certs()
    relays = ["", "rs-1", "a b&c=d/é+%41", "x~y"]
    if not ctx.quick:
        relays += ["&Signature=abc&SigAlg=evil", "A~", "%7E"]
    cases = []
    prov = {}   # Signature text -> (key id, typ, m, rs, alg): who made it over what
    signed = []
    for sname, oname in (("sp", "idp"), ("idp", "sp")):
        E = ents[sname]
        for alg, resp, rs in itertools.product(algs, (False, True), relays):
            typ = "SAMLResponse" if resp else "SAMLRequest"
            info = _call(E.apply_binding, BINDING_HTTP_REDIRECT, MSG, DEST, relay_state=rs, response=resp, sign=True, sigalg=alg)
            if isinstance(info, Exn):
                ctx.oracle_fail("apply-binding-raises:%s" % info.name, "apply_binding(sign=True, sigalg=%s) raised %s" % (alg, info.name), dict(unit="sweep", signer=sname, alg=alg, typ=typ, rs=rs))
                continue
            url = location(info)
            q = query_of(url)
            if "Signature" not in q or "SigAlg" not in q:
                ctx.oracle_fail("not-signed:%s" % alg, "apply_binding(sign=True, sigalg=%s) produced an unsigned URL" % alg, dict(unit="sweep", signer=sname, alg=alg, typ=typ, rs=rs))
                continue
            prov[q["Signature"]] = (KEYID[sname], typ, q[typ], rs, alg)
            signed.append((sname, oname, alg, resp, typ, rs, url, q))
    # unsupported / missing algorithm on the SIGNING side: must not produce anything that verifies
    for alg in UNSUPPORTED + ["", None]:
        info = _call(ents["sp"].apply_binding, BINDING_HTTP_REDIRECT, MSG, DEST, relay_state="rs", sign=True, sigalg=alg)
        if not isinstance(info, Exn):
            qq = query_of(location(info))
            okc = [n for n, c in cs.items() if _call(verify_redirect_signature, dict(qq), ents["idp"].sec.sec_backend, c) is True]
            if okc:
                ctx.oracle_fail("unsupported-alg-signed:%s" % alg, "sigalg=%r produced a URL that verifies under %s" % (alg, okc), dict(unit="sweep-unsupported", alg=alg))
            ctx.count("sweep:unsupported-sigalg-unsigned" if "Signature" not in qq else "sweep:unsupported-sigalg-signed")
    for idx, (sname, oname, alg, resp, typ, rs, url, q) in enumerate(signed):
        donor_same = next(x[7] for x in signed if x[0] == sname and x[2] == alg and x[4] == typ and x[5] != rs)
        donor_other = next(x[7] for x in signed if x[0] == oname and x[2] == alg and x[4] == typ and x[5] == rs)
        # independent reading of the URL text (not pysaml2's verifier)
        ind = independent_verifies(url, sname)
        if ind is not True or independent_verifies(url, oname) is not False:
            ctx.oracle_fail("independent-verify:%s:%s" % (typ, alg.rsplit("-", 1)[-1]),
                            "the URL text is not a valid %s signature of %s over `%s=..[&RelayState=..]&SigAlg=..`" % (alg, sname, typ),
                            dict(unit="sweep", signer=sname, alg=alg, typ=typ, rs=rs, mutation="none"))
        for mname, eff, intact, qm in mutations(q, typ, rs, alg, algs, sname, oname, donor_same, donor_other):
            # verifying entity x certificate: the full product on the unmutated query, a rotating pair otherwise
            if mname == "none":
                combos = [(v, c, None) for v in ("sp", "idp", "none") for c in ("sp", "idp", "other", None)]
                combos += [(oname, sname, oname), (oname, None, sname), (sname, None, oname), (oname, oname, sname)]
            else:
                combos = [(oname, sname, None), ((sname, "none")[idx % 2], oname, None)]
                if idx % 3 == 0:
                    combos.append((sname, None, None))
            for vname, cname, skname in combos:
                crypto = RSACrypto(None) if vname == "none" else ents[vname].sec.sec_backend
                sigkey = None if skname is None else sigver.extract_rsa_key_from_x509_cert(sigver.pem_format(cs[skname]))
                r = _call(verify_redirect_signature, dict(qm), crypto, cs[cname] if cname else None, sigkey)
                # ---- model rendering
                sigtxt = qm.get("Signature")
                if sigtxt is None:
                    csig = "None"
                elif sigtxt in prov:
                    k, t0, m0, rs0, a0 = prov[sigtxt]
                    csig = "(Some (made_sig actual %d %s %s %s %s))" % (k, cstr(t0), cstr(b(m0)), cstr(b(rs0)), cstr(a0))
                else:
                    csig = "(Some (SigJunk %s))" % cbool(not isinstance(_call(base64.b64decode, sigtxt), Exn))
                ps = [(k, v) for k, v in qm.items() if k != "Signature"]
                coq = "(%s, {| q_params := %s; q_sig := %s |}, %s, %s)" % (
                    copt(None if vname == "none" else KEYID[vname], str), cpairs(ps), csig,
                    copt(KEYID[cname] if cname else None, str), copt(KEYID[skname] if skname else None, str))
                show = dict(signer=sname, alg=alg, typ=typ, rs=rs, mutation=mname, verifier=vname, cert=cname, sigkey=skname)
                cases.append(dict(id=len(cases), coq=coq, impl=r, show=show))
                ctx.count("sweep:%s" % ("True" if r is True else "False" if r is False else "None" if r is None else r.name))
                ctx.nontriv(("sweep", sname, alg, typ, rs, mname, vname, cname, skname))
                # ---- the property itself
                rep = dict(show, unit="sweep")
                short = mname.split(":")[0]
                if intact and cname == eff and r is not True:
                    why = "tilde-in-RelayState" if "~" in rs else "%s:%s:%s" % (short, typ, alg.rsplit("-", 1)[-1])
                    ctx.oracle_fail("own-cert-rejected:" + why, "a URL signed by %s (RelayState %r, %s, %s) does not verify under %s's own certificate: %r" % (eff, rs, alg, mname, eff, r), rep)
                if cname is not None and cname != eff and r is True:
                    ctx.oracle_fail("other-cert-accepted:%s:%s" % (short, typ), "a URL signed by %s verifies under the certificate of %s (%s)" % (eff, cname, mname), rep)
                if not intact and r is True:
                    ctx.oracle_fail("mutation-accepted:%s:%s" % (short, typ), "mutation %s of a signed %s still verifies (cert %s, sigkey %s, verifier %s)" % (mname, typ, cname, skname, vname), rep)
    ctx.sample(dict(unit="verify_sweep", algorithms=algs, relay_states=relays, signed_urls=len(signed), cases=len(cases),
                    mutations=sorted(set(c["show"]["mutation"].split(":")[0] for c in cases))))
    correspond(ctx, "verify_sweep", "Model.Redirect",
                   "fun c => match c with (e, q, cert, sk) => show_verify (verify_redirect_signature actual (init_shared actual) e q cert sk) end",
                   "(option keyid * query * option keyid * option keyid)", cases, shard=250)


# ------------------------------------------------------------------ unit: certificate texts that cannot be read
def unreadable_presentations(cs):
    """certificate arguments a caller may hand over that are NOT a readable base64 DER certificate"""
    own = cs["sp"]
    pem = "-----BEGIN CERTIFICATE-----\n%s\n-----END CERTIFICATE-----\n"
    cands = {
        "pem-armoured-idp": pem % cs["idp"],            # pem_format() armours it a second time
        "pem-armoured-sp": pem % cs["sp"],
        "truncated": own[:len(own) // 2],
        "damaged-tail": own[:-24],
        "text": "not a certificate",
        "base64-of-noise": base64.b64encode(bytes(range(7, 250, 3))).decode(),
        "der-prefix-only": own[:64],
    }
    out = {}
    for name, text in cands.items():
        if isinstance(_call(sigver.extract_rsa_key_from_x509_cert, sigver.pem_format(text)), Exn):
            out[name] = text
    return out


def unit_unreadable_cert(ctx):
    """`under no other certificate` includes a candidate certificate that cannot be read: verification must not
    fall back to a key of the verifier's own (the verifying entity may hold the very key that signed: an entity
    checking its own URL, two entities sharing a key pair, a message reflected to its sender)."""
    ents = entities()
    cs = certs()
    algs = supported_algs()
    bad = unreadable_presentations(cs)
    ctx.count("badcert:presentations", len(bad))
    cases = []
    for sname in ("sp", "idp"):
        E = ents[sname]
        for alg, resp, rs in itertools.product(algs, (False, True), ("", "rs~1 &x")):
            typ = "SAMLResponse" if resp else "SAMLRequest"
            info = _call(E.apply_binding, BINDING_HTTP_REDIRECT, MSG, DEST, relay_state=rs, response=resp, sign=True, sigalg=alg)
            if isinstance(info, Exn):
                continue
            q = query_of(location(info))
            if "Signature" not in q:
                continue
            csig = "(Some (made_sig actual %d %s %s %s %s))" % (KEYID[sname], cstr(typ), cstr(b(q[typ])), cstr(b(rs)), cstr(alg))
            variants = [("intact", q)]
            qq = dict(q); qq.pop("SigAlg"); variants.append(("no-sigalg", qq))
            qq = dict(q); qq["SigAlg"] = UNSUPPORTED[0]; variants.append(("unsupported-sigalg", qq))
            qq = dict(q); qq.pop("Signature"); variants.append(("no-signature", qq))
            qq = dict(q); qq["Signature"] = "%%%not-base64"; variants.append(("junk-signature", qq))
            for vname in (sname, "idp" if sname == "sp" else "sp", "none"):
                crypto = RSACrypto(None) if vname == "none" else ents[vname].sec.sec_backend
                for skname in (None, sname):
                    sigkey = None if skname is None else sigver.extract_rsa_key_from_x509_cert(sigver.pem_format(cs[skname]))
                    for vn, qm in variants:
                        for cname, text in bad.items():
                            if vn != "intact" and cname not in ("text", "pem-armoured-idp"):
                                continue
                            r = _call(verify_redirect_signature, dict(qm), crypto, text, sigkey)
                            sigtxt = qm.get("Signature")
                            cs_ = "None" if sigtxt is None else csig if sigtxt == q["Signature"] else \
                                "(Some (SigJunk %s))" % cbool(not isinstance(_call(base64.b64decode, sigtxt), Exn))
                            ps = [(k, v) for k, v in qm.items() if k != "Signature"]
                            coq = "(%s, {| q_params := %s; q_sig := %s |}, %s)" % (
                                copt(None if vname == "none" else KEYID[vname], str), cpairs(ps), cs_,
                                copt(KEYID[skname] if skname else None, str))
                            show = dict(signer=sname, alg=alg, typ=typ, rs=rs, query=vn, verifier=vname, cert=cname, sigkey=skname)
                            # compared at the property's granularity: verified or not
                            cases.append(dict(id=len(cases), coq=coq, impl=(r is True), show=show))
                            ctx.count("badcert:%s" % ("True" if r is True else "False" if r is False else "None" if r is None else r.name))
                            ctx.nontriv(("badcert", sname, alg, typ, rs, vn, vname, cname, skname))
                            if r is True:
                                ctx.oracle_fail("unreadable-cert-accepted:%s:verifier-%s" % (cname, "is-signer" if vname == sname else "other"),
                                                "a URL signed by %s verifies under a certificate text that cannot be read as a certificate (%s), verifier %s, sigkey %s" % (sname, cname, vname, skname),
                                                dict(show, unit="badcert", cert_text=text))
    ctx.sample(dict(unit="unreadable_cert", presentations=sorted(bad), cases=len(cases)))
    correspond(ctx, "unreadable_cert", "Model.Redirect",
               "fun c => match c with (e, q, sk) => VB (verifies (verify_presented actual (init_shared actual) e q PUnreadable sk)) end",
               "(option keyid * query * option keyid)", cases, shard=250)


# ------------------------------------------------------------------ unit: schedule (the LTS)
NAMES = ["sp", "idp", "other"]


def run_trace(tr, ents):
    """tr: list of (kind, entity, alg, extra).  Executes the steps sequentially on the real objects.
    Returns (observations, per-Sign records)"""
    handles = {}
    made = []     # (alg, query)
    obs, signs = [], []
    hist = []     # (kind, entity, alg) for classification
    for step in tr:
        kind, en, alg = step[0], step[1], step[2]
        E = ents[en]
        if kind == "G":
            h = _call(E.sec.sec_backend.get_signer, alg)
            handles[(en, alg)] = h
            obs.append([0, h is not None and not isinstance(h, Exn)])
        elif kind in ("S", "A"):
            resp, rs = step[3], step[4]
            typ = "SAMLResponse" if resp else "SAMLRequest"
            if kind == "S":
                info = _call(E.use_http_get, MSG, DEST, rs, typ, sigalg=alg, signer=handles[(en, alg)])
            else:
                info = _call(E.apply_binding, BINDING_HTTP_REDIRECT, MSG, DEST, relay_state=rs, response=resp, sign=True, sigalg=alg)
            if isinstance(info, Exn):
                obs.append([1, info])
                who = info
            else:
                url = location(info)
                q = query_of(url)
                w = who_verifies(q) if "Signature" in q else []
                who = KEYID[w[0]] if len(w) == 1 else (None if not w else [KEYID[x] for x in w])
                ind = [n for n in NAMES if independent_verifies(url, n)]
                if "Signature" in q and [KEYID[n] for n in ind] != ([who] if isinstance(who, int) else who or []):
                    who = Exn("observers-disagree")
                obs.append([1, who])
                if "Signature" in q:
                    made.insert(0, (alg, q))
            signs.append(dict(pos=len(hist), kind=kind, entity=en, alg=alg, who=who))
        elif kind == "V":
            cname = step[3]
            q = next((qq for a, qq in made if a == alg), None) or {"SAMLRequest": "x", "SigAlg": alg, "Signature": "AAAA"}
            r = _call(verify_redirect_signature, dict(q), E.sec.sec_backend, certs()[cname] if cname else None)
            obs.append([2, r])
        hist.append((kind, en, alg))
    return obs, signs, hist


def coq_trace(tr):
    out = []
    for step in tr:
        kind, en, alg = step[0], step[1], step[2]
        if kind == "G":
            out.append("SGet %d %s" % (KEYID[en], cstr(alg)))
        elif kind in ("S", "A"):
            m = MSG_VALUE[0]
            out.append("%s %d %s %s %s %s" % ("SSign" if kind == "S" else "SApply", KEYID[en], cbool(step[3]), cstr(m), cstr(b(step[4])), cstr(alg)))
        else:
            out.append("SVerify %d %s %s" % (KEYID[en], cstr(alg), copt(KEYID[step[3]] if step[3] else None, str)))
    return "[" + "; ".join(out) + "]"


MSG_VALUE = []


def classify(sign, hist):
    """which shape of history precedes a Sign step that used a foreign key"""
    en, alg, pos = sign["entity"], sign["alg"], sign["pos"]
    if sign["kind"] == "A":
        return "inside-apply_binding"
    last_get = max(i for i in range(pos) if hist[i] == ("G", en, alg))
    between = [h for h in hist[last_get + 1:pos] if h[1] != en and h[2] == alg and h[0] in ("G", "A", "V")]
    if not between:
        return "nobody-else-in-between"
    last = between[-1]
    return {"G": "other-get_signer-between-get-and-sign", "A": "other-apply_binding-between-get-and-sign", "V": "other-verify-between-get-and-sign"}[last[0]]


def enabled(prefix, step):
    if step[0] != "S":
        return True
    return any(p[0] == "G" and p[1] == step[1] and p[2] == step[2] for p in prefix)


def gen_traces(ctx, algs):
    a1 = algs[min(2, len(algs) - 1)]
    alpha = [("G", "sp", a1), ("G", "idp", a1), ("S", "sp", a1, False, "rs"), ("S", "idp", a1, False, "rs"),
             ("A", "sp", a1, False, "rs"), ("A", "idp", a1, False, "rs"), ("V", "sp", a1, "sp"), ("V", "idp", a1, "sp")]
    maxlen = 4 if ctx.quick else 5
    traces = []

    def rec(prefix):
        if prefix:
            traces.append(list(prefix))
        if len(prefix) == maxlen:
            return
        for s in alpha:
            if enabled(prefix, s):
                rec(prefix + [s])
    rec([])
    exhaustive_n = len(traces)
    # random longer ones: three entities, two algorithms (+ an unsupported one), responses, cert=None
    a2 = algs[0]
    for _ in range(300 if ctx.quick else 6000):
        n = ctx.rng.randint(5, 12)
        tr = []
        for _ in range(n):
            en = ctx.rng.choice(NAMES)
            alg = ctx.rng.choice([a1, a1, a2, a2, UNSUPPORTED[1]])
            kind = ctx.rng.choice("GGSSAV")
            if alg == UNSUPPORTED[1] and kind == "S":
                kind = "A"
            if kind == "G":
                s = ("G", en, alg)
            elif kind in "SA":
                s = (kind, en, alg, ctx.rng.random() < 0.4, ctx.rng.choice(["", "rs", "a b&c"]))
            else:
                s = ("V", en, alg, ctx.rng.choice(["sp", "idp", "other", None]))
            if not enabled(tr, s):
                s = ("G", en, alg)
            tr.append(s)
        traces.append(tr)
    return traces, exhaustive_n, maxlen


def unit_schedule(ctx):
    ents = entities()
    algs = supported_algs()
    v = s_utils.deflate_and_base64_encode(MSG)
    MSG_VALUE[:] = [v if isinstance(v, bytes) else v.encode()]
    traces, exhaustive_n, maxlen = gen_traces(ctx, algs)
    cases = []
    foreign = []
    for ti, tr in enumerate(traces):
        obs, signs, hist = run_trace(tr, ents)
        cases.append(dict(id=ti, coq=coq_trace(tr), impl=obs, show=tr))
        ctx.count("schedule:len%d" % len(tr) if len(tr) <= maxlen else "schedule:random-long")
        for s in signs:
            ctx.count("schedule:sign-steps")
            if isinstance(s["who"], int):
                ctx.nontriv(("schedule", tuple(map(tuple, tr)), s["pos"]))
            if s["alg"] not in algs:
                if s["who"] is not None:
                    ctx.oracle_fail("own-key:unsupported-alg-signed", "a Sign step with unsupported algorithm %s produced %r" % (s["alg"], s["who"]), dict(unit="schedule", trace=tr))
                continue
            if s["who"] != KEYID[s["entity"]]:
                shape = classify(s, hist)
                ctx.count("schedule:foreign-key:" + shape)
                foreign.append((s["pos"] + 1, "own-key:" + shape,
                                "%s signs (%s) at step %d but the signature verifies under key %r (keys: sp=1 idp=2 other=3), not under its own certificate" % (
                                    s["entity"], s["alg"].rsplit("-", 1)[-1], s["pos"], s["who"]),
                                dict(unit="schedule", trace=tr[:s["pos"] + 1])))
            else:
                ctx.count("schedule:own-key")
    foreign.sort(key=lambda f: f[0])          # shortest schedule first: it becomes the replay of its key
    for _, key, what, rep in foreign:
        ctx.oracle_fail(key, what, rep)
    ctx.extra["schedule"] = dict(exhaustive_up_to_length=maxlen, exhaustive_traces=exhaustive_n, random_long_traces=len(traces) - exhaustive_n,
                                 alphabet="get_signer / sign-with-held-handle / apply_binding / verify x {sp, idp} x one algorithm (exhaustive part)")
    ctx.sample(dict(unit="schedule", trace=traces[exhaustive_n - 1], observed=cases[exhaustive_n - 1]["impl"]))
    correspond(ctx, "schedule", "Model.Redirect", "show_script actual", "(list sop)", cases, shard=150)


# ------------------------------------------------------------------ unit: real threads (thorough)
def unit_threads(ctx, rounds=200):
    ents = entities()
    alg = supported_algs()[min(2, len(supported_algs()) - 1)]
    real = pack.deflate_and_base64_encode
    barrier = threading.Barrier(2, timeout=0.5)

    def meeting(msg):            # called by http_redirect_message AFTER apply_binding obtained the signer, BEFORE it signs
        try:
            barrier.wait()
        except threading.BrokenBarrierError:
            pass
        return real(msg)
    results = []

    def worker(name, n):
        E = ents[name]
        for i in range(n):
            info = _call(E.apply_binding, BINDING_HTTP_REDIRECT, MSG, DEST, relay_state="t%d" % i, sign=True, sigalg=alg)
            results.append((name, info))
    old = sys.getswitchinterval()
    sys.setswitchinterval(1e-6)
    pack.deflate_and_base64_encode = meeting
    try:
        ts = [threading.Thread(target=worker, args=(n, rounds)) for n in ("sp", "idp")]
        [t.start() for t in ts]
        [t.join() for t in ts]
    finally:
        pack.deflate_and_base64_encode = real
        sys.setswitchinterval(old)
        barrier.abort()
    bad = 0
    for name, info in results:
        if isinstance(info, Exn):
            ctx.oracle_fail("threads-raises:%s" % info.name, "apply_binding raised %s in a thread" % info.name, dict(unit="threads"))
            continue
        w = who_verifies(query_of(location(info)))
        if w != [name]:
            bad += 1
    ctx.count("threads:urls", len(results))
    ctx.count("threads:foreign-key", bad)
    ctx.evaluations += len(results)
    ctx.unit("threads", cases=len(results), disagreements=0, foreign_key=bad)
    if bad:
        ctx.oracle_fail("own-key:concurrent-apply_binding", "%d of %d URLs signed concurrently by two entities carry the OTHER entity's signature" % (bad, len(results)),
                        dict(unit="threads", rounds=rounds))


# ------------------------------------------------------------------
def run(ctx):
    unit_sign_string(ctx)
    unit_verify_string(ctx)
    unit_verify_sweep(ctx)
    unit_unreadable_cert(ctx)
    unit_schedule(ctx)
    if not ctx.quick:
        unit_threads(ctx)
    ctx.exhaustive = False
    ctx.notes.append("verify_sweep is exhaustive over SIGNER_ALGS x {request, response} x the mutation list; schedule is exhaustive up to the stated length; both have random/unbounded remainders, so `exhaustive` is reported false")


def cex_search(ctx):
    """something no longer checks and the quick-size oracle found nothing: widen the implementation-level
    search (oracle only, thorough sizes, real threads)"""
    if ctx.oracle_failures and any(k not in __import__("core").known_keys("C15") for k, _, _ in ctx.oracle_failures):
        return
    saved_tier = ctx.tier
    ctx.tier = "thorough"
    _ORACLE_ONLY[0] = True
    try:
        unit_verify_sweep(ctx)
        unit_schedule(ctx)
        unit_threads(ctx, rounds=50)
    finally:
        ctx.tier = saved_tier
        _ORACLE_ONLY[0] = False


def replay(ctx, payload):
    inp = payload.get("input", {})
    print("replay input:", json.dumps(inp)[:2000])
    ents = entities()
    if inp.get("unit") == "schedule":
        tr = [tuple(s) for s in inp["trace"]]
        obs, signs, hist = run_trace(tr, ents)
        for s, o in zip(tr, obs):
            print("  %-60s -> %r" % (s, o))
        for s in signs:
            print("  sign step %d by %s: verifies under key %r (own key is %d)" % (s["pos"], s["entity"], s["who"], KEYID[s["entity"]]))
        return 1 if any(s["who"] != KEYID[s["entity"]] for s in signs if s["alg"] in supported_algs()) else 0
    if inp.get("unit") == "sweep":
        E = ents[inp["signer"]]
        info = E.apply_binding(BINDING_HTTP_REDIRECT, MSG, DEST, relay_state=inp["rs"], response=inp["typ"] == "SAMLResponse", sign=True, sigalg=inp["alg"])
        url = location(info)
        q = query_of(url)
        print("  URL:", url)
        print("  mutation (re-apply by hand if not none):", inp.get("mutation"))
        for n, c in certs().items():
            print("  verify_redirect_signature under %-5s: %r" % (n, _call(verify_redirect_signature, dict(q), RSACrypto(None), c)))
        print("  independent check of the URL text under the signer's certificate:", independent_verifies(url, inp["signer"]))
        return 0 if _call(verify_redirect_signature, dict(q), RSACrypto(None), certs()[inp["signer"]]) is True else 1
    if inp.get("unit") == "threads":
        unit_threads(ctx, rounds=inp.get("rounds", 100))
        print("  ", ctx.distribution)
        return 1 if ctx.oracle_failures else 0
    return 0
