"""C09 — the IdP answers only to endpoints registered for the requesting SP.

Generated SP metadata (built with pysaml2's own md classes, loaded through the
real MetadataStore of a real Server) x request variants of the quantifier,
through Server.response_args / Entity.pick_binding, against
Model/PickBinding.v; plus the property itself as an implementation-level
oracle evaluated against the *generation spec* of the metadata (not against the
store's internal dictionaries).
"""
import itertools
import json
import os

import env
from core import Exn, cstr, cbool, copt, clist, call
from saml2_tophat import md, saml, samlp
from saml2_tophat import BINDING_HTTP_POST as POST, BINDING_HTTP_REDIRECT as REDIRECT
from saml2_tophat import BINDING_HTTP_ARTIFACT as ARTIFACT, BINDING_SOAP as SOAP, BINDING_PAOS as PAOS

CLAIM = {
    "text": "Coq theorems (Props/C09.v) over an executable model of Entity.response_args / pick_binding and MetadataStore.service (None vs [] vs list, several sources, UnknownSystemEntity vs swallowed UnsupportedBinding, the independent getattr reads of _url/_index, binding list derivation, destinations(srvs)[0], message-type dispatch and SOAP short-cut): for EVERY metadata store, configuration, request, bindings argument and descr_type, any (binding, destination) produced is an endpoint the metadata registers for the stripped issuer under the consulted role and service (or the empty back-channel destination of the bindings==[SOAP] short-cut); a supplied consumer URL is answered only when string-equal to a registered location and otherwise the result is an error (never that URL), and a URL registered in the effective endpoint list is honoured; an issuer without that role in metadata always yields an error. The index half holds too (C09_index, C09_unknown_index_refused): an AuthnRequest naming an index and no URL is answered only to an endpoint carrying exactly that index, an unknown index is refused; for the code before the repair fix: 05de9b7d the file keeps the refutation (C09_index_before_fix_refuted, witness) about the separately named response_args_before_fix. Binding strings and entity ids that contain each other (C09_contained_binding_differs, C09_answered_binding_admitted, C09_no_equal_binding_refused, C09_contained_binding_refused, C09_contained_entity_id_refused): the answered binding is an element of the admitted binding list and exactly the registered endpoint's binding string; a proper super-/sub-string (HTTP-POST-SimpleSign vs HTTP-POST, trailing slash/space, the prefix ...:HTTP) is a different binding, and an issuer whose endpoints (or whose look-alike entity ids) only contain / are contained in the admitted ones is refused. Tie to the code: exhaustive cross product of small metadata layouts x request variants (URL registered / unregistered / near-miss, index, protocol binding, issuer, bindings argument, AuthnRequest / LogoutRequest / other message classes) through the real Server.response_args and pick_binding on every run, random larger layouts on top; 34 layouts with endpoints under super-/sub-string and case-variant binding strings x 14 ProtocolBinding values x 26 bindings arguments x 4 preferred_binding tables, and 6 multi-source layouts with entity ids differing by trailing slash / case / one character x 9 issuers (oracle keys binding-string-not-exact, other-entity-endpoint).",
    "note": "Trusted: Coq kernel + vm_compute; the hand-written model is tied to the code by the correspondence (exhaustive for the small layouts, compared at answered-to/refused granularity plus exact binding and destination); str.strip() is modelled by Python's isspace code-point set; metadata loading itself (XML -> store) is C16's subject and enters here only through generated, valid, single-protocol descriptors. Finding F4 (pick_binding read <service>_index only when the request class lacked <service>_url, so an unknown AssertionConsumerServiceIndex was answered to the default endpoint) was found by this check and repaired in /repo (fix: 05de9b7d; known_findings.json 'fixed'); the oracle key acs-index-not-consulted:pick_binding reports it again if it returns. When a request carries both a URL and an index the URL decides and the index is not consulted (modelled; the statement's 'honoured only if registered' holds for the URL).",
    "technique": "machine-checked proof (Coq) + exhaustive small-scope and random model/implementation correspondence + implementation-level oracle",
}
TRUSTED = [
    "modelled by hand: Entity.response_args, Entity.pick_binding, mdstore.destinations, InMemoryMetaData.service, MetadataStore.service and its four wrappers used by response_args (Model/PickBinding.v)",
    "metadata enters the model as the generation spec of the harness (entities / role descriptors / endpoint dicts); that the real store holds exactly this after loading is checked per layout (unit metadata_load) but loading itself is property C16",
    "str.strip() = removal of leading/trailing code points with str.isspace() (29 code points, listed in the model); checked against Python over all code points by the harness on every run",
]
ASSUMPTIONS = [
    "elements of a `bindings` argument / preferred_binding list are strings (not None)",
    "the empty destination returned with bindings == [BINDING_SOAP] means `answer on the same connection` and is not an address",
    "`registered` is relative to the consulted role: spsso for AuthnRequest/AttributeQuery, the caller's descr_type (default spsso on an IdP) for LogoutRequest/ManageNameIDRequest",
]
RULE = ("a case is non-trivial when the request carries a consumer URL, an index, a ProtocolBinding, an unknown/other issuer, "
        "or a bindings argument (distinct by layout x request content); plain requests only count once per layout")

INDEX_KEY = "acs-index-not-consulted:pick_binding"

SP1 = "https://sp.example.org/sp"
SP2 = "https://sp2.example.org/sp"
NOBODY = "https://nobody.example.org/sp"
LOCS = ["https://sp.example.org/acs/a", "https://sp.example.org/acs/ab", "https://sp.example.org/acs/b",
        "https://sp.example.org/acs/c"]
SP2_ACS = "https://sp2.example.org/acs"
EVIL = "https://evil.example.com/acs"
PSE = "urn:oasis:names:tc:SAML:2.0:protocol"
SHORT = {POST: "POST", REDIRECT: "REDIRECT", ARTIFACT: "ARTIFACT", SOAP: "SOAP"}
CB = {POST: "B_POST", REDIRECT: "B_REDIRECT", ARTIFACT: "B_ARTIFACT", SOAP: "B_SOAP"}
SVC = {"assertion_consumer_service": "ACS", "single_logout_service": "SLO",
       "manage_name_id_service": "MNI", "attribute_consuming_service": "AttrCS"}
EXACT = bool(os.environ.get("C09_EXACT"))   # diagnosis: compare exact exception classes


# ---------------------------------------------------------------------------
# metadata layouts: spec -> XML (pysaml2's own classes) and spec -> Coq term
# ---------------------------------------------------------------------------
def sv(typ, binding, loc, index=None, dflt=None):
    return dict(type=typ, binding=binding, location=loc, index=index, default=dflt)


def entity(eid, descs, idp_slo=None):
    """descs: list of SPSSODescriptors, each a list of service specs;
    idp_slo: optional list of (binding, location) SLO endpoints of an IDPSSODescriptor"""
    return dict(eid=eid, descs=descs, idp_slo=idp_slo)


def _desc_xml(d):
    acs = [md.AssertionConsumerService(binding=s["binding"], location=s["location"], index=s["index"],
                                       is_default=s["default"])
           for s in d if s["type"] == "assertion_consumer_service"]
    slo = [md.SingleLogoutService(binding=s["binding"], location=s["location"])
           for s in d if s["type"] == "single_logout_service"]
    mni = [md.ManageNameIDService(binding=s["binding"], location=s["location"])
           for s in d if s["type"] == "manage_name_id_service"]
    attrcs = [md.AttributeConsumingService(index=s["index"], service_name=[md.ServiceName(text="svc", lang="en")],
                                           requested_attribute=[md.RequestedAttribute(name="mail")])
              for s in d if s["type"] == "attribute_consuming_service"]
    return md.SPSSODescriptor(protocol_support_enumeration=PSE, assertion_consumer_service=acs,
                              single_logout_service=slo, manage_name_id_service=mni,
                              attribute_consuming_service=attrcs)


def _entity_xml(e):
    idps = []
    if e["idp_slo"] is not None:
        idps = [md.IDPSSODescriptor(
            protocol_support_enumeration=PSE,
            single_sign_on_service=[md.SingleSignOnService(binding=REDIRECT, location="https://idp.example.net/sso")],
            single_logout_service=[md.SingleLogoutService(binding=b, location=l) for b, l in e["idp_slo"]])]
    return md.EntityDescriptor(entity_id=e["eid"], spsso_descriptor=[_desc_xml(d) for d in e["descs"]],
                               idpsso_descriptor=idps)


def layout_xml(layout):
    """one XML document per source: EntityDescriptor, or EntitiesDescriptor when it holds several"""
    out = []
    for src in layout:
        if len(src) == 1:
            out.append(str(_entity_xml(src[0])))
        else:
            out.append(str(md.EntitiesDescriptor(entity_descriptor=[_entity_xml(e) for e in src])))
    return out


def _sv_coq(s):
    if s["type"] == "attribute_consuming_service":
        return ("{| sv_type := svc_name AttrCS; sv_binding := None; sv_location := None; sv_index := %s; sv_default := None |}"
                % copt(s["index"], cstr))
    return "(mk_sv %s %s %s %s %s)" % (SVC[s["type"]], cbind(s["binding"]), cstr(s["location"]),
                                       copt(s["index"], cstr), copt(s["default"], cstr))


def cbind(b):
    return CB.get(b) or cstr(b)


def _entity_coq(e):
    roles = []
    if e["descs"]:
        roles.append('(s2l "spsso_descriptor", %s)' % clist(e["descs"], lambda d: clist(d, _sv_coq)))
    if e["idp_slo"] is not None:
        # what the store holds for an IDPSSODescriptor: SSO service + SLO services
        svs = ['{| sv_type := s2l "single_sign_on_service"; sv_binding := Some B_REDIRECT; sv_location := Some (s2l "https://idp.example.net/sso"); sv_index := None; sv_default := None |}']
        svs += ["(mk_sv SLO %s %s None None)" % (cbind(b), cstr(l)) for b, l in e["idp_slo"]]
        roles.append('(s2l "idpsso_descriptor", [[%s]])' % "; ".join(svs))
    return "{| en_id := %s; en_roles := [%s] |}" % (cstr(e["eid"]), "; ".join(roles))


def layout_coq(layout):
    return clist(layout, lambda src: clist(src, _entity_coq))


def registered(layout, eid, role, typ):
    """the spec's answer to `which (binding, location, index) does the metadata
    register for eid / role / service` — independent of the store's code"""
    out = []
    for src in layout:
        for e in src:
            if e["eid"] != eid:
                continue
            if role == "spsso":
                for d in e["descs"]:
                    out += [(s["binding"], s["location"], s["index"]) for s in d if s["type"] == typ]
            elif role == "idpsso" and e["idp_slo"] is not None and typ == "single_logout_service":
                out += [(b, l, None) for b, l in e["idp_slo"]]
    return out


def check_loaded(ctx, idp, layout, lid):
    """the store really holds the spec (otherwise the comparison below would be
    about loading, which is C16): reported as a broken tie, not as a C09 finding"""
    for src in layout:
        for e in src:
            for typ in ("assertion_consumer_service", "single_logout_service", "manage_name_id_service"):
                want = [(b, l, i) for (b, l, i) in registered(layout, e["eid"], "spsso", typ)]
                got = []
                for key, _md in idp.metadata.metadata.items():
                    try:
                        for d in _md[e["eid"]]["spsso_descriptor"]:
                            got += [(s["binding"], s["location"], s.get("index")) for s in d.get(typ, [])]
                    except KeyError:
                        pass
                if sorted(map(repr, want)) != sorted(map(repr, got)):
                    ctx.broken.append(("metadata_load", "layout %s: store holds %r for %s/%s, generated %r" % (
                        lid, got, e["eid"], typ, want)))
                    return False
    return True


# ---------------------------------------------------------------------------
# layouts
# ---------------------------------------------------------------------------
SLO_ROT = [
    [],
    [("single_logout_service", SOAP, "https://sp.example.org/slo/soap")],
    [("single_logout_service", REDIRECT, "https://sp.example.org/slo/r"),
     ("single_logout_service", POST, "https://sp.example.org/slo/p")],
    [("single_logout_service", SOAP, "https://sp.example.org/slo/soap"),
     ("single_logout_service", POST, "https://sp.example.org/slo/p"),
     ("manage_name_id_service", POST, "https://sp.example.org/mni")],
]
SP2_ENT = entity(SP2, [[sv("assertion_consumer_service", POST, SP2_ACS, "0", "true"),
                        sv("assertion_consumer_service", REDIRECT, SP2_ACS + "/r", "1"),
                        sv("single_logout_service", POST, "https://sp2.example.org/slo")]])


def _acs_desc(eps, k, first_index=0):
    """eps: [(binding, location)]; indexes are positions from first_index; isDefault rotates with k"""
    d = []
    for n, (b, l) in enumerate(eps):
        dflt = None
        if k % 3 == 1 and n == len(eps) - 1:
            dflt = "true"
        elif k % 3 == 2 and n == 0:
            dflt = "true" if len(eps) == 1 else "false"
        d.append(sv("assertion_consumer_service", b, l, str(first_index + n), dflt))
    return d


def small_layouts():
    """every ACS layout with 1 or 2 endpoints over {POST, REDIRECT, ARTIFACT} and
    locations that are equal / prefix of each other, SLO rotating; SP2 in its own source"""
    out = []
    k = 0
    for b in (POST, REDIRECT, ARTIFACT):
        d = _acs_desc([(b, LOCS[0])], k) + [sv(*s) for s in SLO_ROT[k % 4]]
        out.append([[entity(SP1, [d])], [SP2_ENT]])
        k += 1
    for b1, b2 in itertools.product((POST, REDIRECT, ARTIFACT), repeat=2):
        for l1, l2 in ((LOCS[0], LOCS[0]), (LOCS[0], LOCS[1]), (LOCS[1], LOCS[0])):
            d = _acs_desc([(b1, l1), (b2, l2)], k) + [sv(*s) for s in SLO_ROT[k % 4]]
            out.append([[entity(SP1, [d])], [SP2_ENT]])
            k += 1
    return out


def special_layouts():
    """layouts that exercise the store: two descriptors, one EntitiesDescriptor
    holding both SPs, the same entity in two sources, an SP without ACS, an
    entity that is only an IdP, an AttributeConsumingService"""
    a, ab, b, c = LOCS
    out = []
    # two SPSSODescriptors in one entity; both SPs in one EntitiesDescriptor
    out.append([[entity(SP1, [_acs_desc([(REDIRECT, a)], 0) + [sv(*s) for s in SLO_ROT[3]],
                               _acs_desc([(POST, b), (POST, c)], 1, first_index=1)]), SP2_ENT]])
    # SP1 in two sources: the first source wins whenever it has the binding
    out.append([[entity(SP1, [_acs_desc([(POST, a)], 0)])],
                [entity(SP1, [_acs_desc([(POST, b), (ARTIFACT, c)], 0, first_index=5) +
                              [sv(*s) for s in SLO_ROT[2]]])],
                [SP2_ENT]])
    # SP1 without any endpoint; NOBODY is known, but only as an IdP
    out.append([[entity(SP1, [[]])], [entity(NOBODY, [], idp_slo=[(POST, "https://nobody.example.org/slo")])], [SP2_ENT]])
    # AttributeConsumingService present; SP1 also has an IDPSSODescriptor with SLO
    out.append([[entity(SP1, [_acs_desc([(POST, a), (REDIRECT, a), (ARTIFACT, b)], 2) +
                              [sv("attribute_consuming_service", None, None, "1")] + [sv(*s) for s in SLO_ROT[2]]],
                        idp_slo=[(REDIRECT, "https://sp.example.org/idp-slo")]), SP2_ENT]])
    # SP2 loaded BEFORE SP1 and sharing a location string with it
    out.append([[SP2_ENT], [entity(SP1, [_acs_desc([(POST, a), (POST, SP2_ACS + "x")], 1) + [sv(*s) for s in SLO_ROT[1]]])]])
    return out


def random_layout(rng):
    n = rng.randint(1, 4)
    eps = [(rng.choice((POST, REDIRECT, ARTIFACT, POST)), rng.choice(LOCS)) for _ in range(n)]
    k = rng.randint(0, 11)
    first = rng.choice((0, 0, 1, 3))
    d = _acs_desc(eps, k, first_index=first)
    slo = [sv(*s) for s in SLO_ROT[k % 4]]
    if rng.random() < 0.3 and n > 1:       # split over two descriptors
        cut = rng.randint(1, n - 1)
        descs = [d[:cut] + slo, d[cut:]]
    else:
        descs = [d + slo]
    srcs = [[entity(SP1, descs)], [SP2_ENT]]
    r = rng.random()
    if r < 0.25:
        srcs = [[entity(SP1, descs), SP2_ENT]]
    elif r < 0.4:
        srcs = [[SP2_ENT], [entity(SP1, descs)]]
    elif r < 0.55:   # a second source that also describes SP1
        other = _acs_desc([(rng.choice((POST, REDIRECT, ARTIFACT)), rng.choice(LOCS))], 0, first_index=7)
        srcs = [[entity(SP1, descs)], [entity(SP1, [other])], [SP2_ENT]]
    return srcs


# ---------------------------------------------------------------------------
# request variants
# ---------------------------------------------------------------------------
def swapcase_last(u):
    return u[:-1] + u[-1].swapcase()


def url_variants(layout):
    """(label, url) — the URL axis of the quantifier, relative to SP1's registered locations"""
    regs = []
    for (_, l, _) in registered(layout, SP1, "spsso", "assertion_consumer_service"):
        if l not in regs:
            regs.append(l)
    base = regs[0] if regs else LOCS[0]
    out = [("absent", None), ("empty", "")]
    out += [("registered%d" % n, l) for n, l in enumerate(regs[:3])]
    out += [
        ("unregistered", EVIL),
        ("other-sp", SP2_ACS),
        ("case-path", swapcase_last(base)),
        ("case-host", base.replace("sp.example.org", "SP.example.org")),
        ("trailing-slash", base + "/"),
        ("extra-query", base + "?x=1"),
        ("prefix", base[:-1]),
        ("longer", base + "b"),         # LOCS[0]+"b" = LOCS[1]: registered in some layouts, not in others
        ("space-padded", " " + base),
    ]
    return out


def index_variants(layout):
    idx = [i for (_, _, i) in registered(layout, SP1, "spsso", "assertion_consumer_service") if i is not None]
    out = [("absent", None), ("unknown", "7"), ("empty", "")]
    if idx:
        out.append(("known-first", idx[0]))
        if idx[-1] != idx[0]:
            out.append(("known-last", idx[-1]))
    return out


PB_VARIANTS = [("absent", None), ("post", POST), ("redirect", REDIRECT), ("artifact", ARTIFACT),
               ("unknown", "urn:example:binding:none"), ("soap", SOAP)]
ISSUER_VARIANTS = [("sp1", SP1), ("sp1-padded", " \t" + SP1 + "\n"), ("nobody", NOBODY), ("sp2", SP2),
                   ("sp1-case", SP1.upper()), ("sp1-slash", SP1 + "/"), ("none", None), ("sp1-nbsp", SP1 + u"\xa0 ")]
BINDINGS_VARIANTS = [("none", None), ("post", [POST]), ("redirect-post", [REDIRECT, POST]), ("soap", [SOAP]),
                     ("artifact-soap", [ARTIFACT, SOAP]), ("empty", []),
                     # the ECP call shape and other single-binding arguments: no binding value is a licence to skip the metadata
                     ("paos", [PAOS]), ("paos-post", [PAOS, POST]), ("artifact", [ARTIFACT]), ("redirect", [REDIRECT])]


def authn_requests(layout, full, thin=True):
    """the cross product: complete on (url x index x protocol binding) for
    issuer SP1 / bindings None, and a thinner product for the other issuers and
    bindings arguments"""
    urls, idxs = url_variants(layout), index_variants(layout)
    out = []
    for (ul, u), (il, i), (pl, pb) in itertools.product(urls, idxs, PB_VARIANTS):
        out.append(dict(kind="authn", issuer=SP1, url=u, index=i, pb=pb, bindings=None, dt="",
                        tag=("sp1", ul, il, pl, "none")))
    if thin is False:
        return out
    thin_urls = [x for x in urls if x[0] in ("absent", "registered0", "unregistered", "other-sp", "trailing-slash")]
    thin_idx = [x for x in idxs if x[0] in ("absent", "unknown")]
    thin_pb = [x for x in PB_VARIANTS if x[0] in ("absent", "post")] if not full else PB_VARIANTS[:4]
    for (sl, iss), (bl, bs) in itertools.product(ISSUER_VARIANTS, BINDINGS_VARIANTS):
        if sl == "sp1" and bl == "none":
            continue
        if not full and not (bl == "none" or sl in ("sp1", "nobody")):
            continue    # quick tier: issuers x {no bindings argument}, bindings arguments x {known, unknown issuer}
        for (ul, u), (il, i), (pl, pb) in itertools.product(thin_urls, thin_idx, thin_pb):
            out.append(dict(kind="authn", issuer=iss, url=u, index=i, pb=pb, bindings=bs, dt="",
                            tag=(sl, ul, il, pl, bl)))
    return out


OTHER_KINDS = ["logout", "manage_name_id", "attribute_query", "assertion_id_request", "artifact_resolve",
               "name_id_mapping", "authn_query", "authz_decision_query"]
LOGOUT_BINDINGS = [("none", None), ("soap", [SOAP]), ("redirect", [REDIRECT]), ("post", [POST]), ("paos", [PAOS]),
                   ("artifact-post", [ARTIFACT, POST]), ("soap-post", [SOAP, POST]), ("empty", []),
                   ("post-soap", [POST, SOAP])]


def other_requests(layout, kinds=None):
    out = []
    for kind in (kinds or OTHER_KINDS):
        for (sl, iss), (bl, bs), dt in itertools.product(
                [x for x in ISSUER_VARIANTS if x[0] in ("sp1", "sp1-padded", "nobody", "sp2", "none")],
                LOGOUT_BINDINGS, ["", "spsso", "idpsso"]):
            if kind not in ("logout", "manage_name_id") and (dt == "idpsso" or bl in ("artifact-post", "post-soap")):
                continue
            out.append(dict(kind=kind, issuer=iss, url=None, index=None, pb=None, bindings=bs, dt=dt,
                            tag=(sl, kind, bl, dt or "default")))
    return out


MSG_CLASS = {
    "authn": samlp.AuthnRequest, "logout": samlp.LogoutRequest, "manage_name_id": samlp.ManageNameIDRequest,
    "attribute_query": samlp.AttributeQuery, "assertion_id_request": samlp.AssertionIDRequest,
    "artifact_resolve": samlp.ArtifactResolve, "name_id_mapping": samlp.NameIDMappingRequest,
    "authn_query": samlp.AuthnQuery, "authz_decision_query": samlp.AuthzDecisionQuery,
}
KIND_COQ = {"authn": "KAuthn", "logout": "KLogout", "manage_name_id": "KManageNameID", "attribute_query": "KAttrQuery",
            "assertion_id_request": "KSoapOnly", "artifact_resolve": "KSoapOnly", "name_id_mapping": "KSoapOnly",
            "authn_query": "KOther", "authz_decision_query": "KOther"}
KIND_SERVICE = {"authn": "assertion_consumer_service", "logout": "single_logout_service",
                "manage_name_id": "manage_name_id_service", "attribute_query": "attribute_consuming_service"}


def make_message(r):
    iss = saml.Issuer(text=r["issuer"]) if r["issuer"] is not None else None
    if r["kind"] == "authn":
        return samlp.AuthnRequest(id="id-1", version="2.0", issue_instant=env.ts(env.NOW), issuer=iss,
                                  assertion_consumer_service_url=r["url"],
                                  assertion_consumer_service_index=r["index"], protocol_binding=r["pb"])
    return MSG_CLASS[r["kind"]](id="id-1", version="2.0", issue_instant=env.ts(env.NOW), issuer=iss)


def cattr(present, v):
    return "(Has %s)" % copt(v, cstr) if present else "Missing"


def request_coq(r):
    a = r["kind"] == "authn"
    iss = "None" if r["issuer"] is None else "(Some (Some %s))" % cstr(r["issuer"])
    return "(mk_req %s %s %s %s %s)" % (KIND_COQ[r["kind"]], iss, cattr(a, r["pb"]), cattr(a, r["url"]), cattr(a, r["index"]))


def pref_coq(ent):
    """the entity's preferred_binding table as the model's cf_preferred (regenerated from the
    running configuration: which registered endpoint is preferred is not part of C09)"""
    pb = ent.config.preferred_binding
    rows = []
    for name, c in SVC.items():
        if name in pb:
            rows.append("(%s, %s)" % (c, clist(list(pb[name]), cbind)))
    return "[" + "; ".join(rows) + "]"


def cbindings(bs):
    return copt(bs, lambda l: clist(l, cbind))


def observe(x):
    """result dict / exception -> comparable value"""
    if isinstance(x, Exn):
        return x if EXACT else Exn("Reject")
    if isinstance(x, dict):
        if "binding" not in x and "destination" not in x:
            return None
        return [x.get("binding"), x.get("destination")]
    if isinstance(x, tuple) and len(x) == 2:
        return [x[0], x[1]]
    return Exn("UnexpectedResult:%r" % (x,))


# ---------------------------------------------------------------------------
# the property, stated on the implementation's answers (no model involved)
# ---------------------------------------------------------------------------
def related(x, y):
    """two different strings one of which contains the other, or equal up to case / surrounding space / trailing slash"""
    if x is None or y is None or x == y:
        return False
    nx, ny = x.strip().rstrip("/").lower(), y.strip().rstrip("/").lower()
    return nx == ny or (x != "" and x in y) or (y != "" and y in x) or (nx != "" and (nx in ny or ny in nx))


def oracle(ctx, layout, lid, r, got, site="response_args", over=None):
    kind = r["kind"]
    typ = KIND_SERVICE.get(kind)
    answered = isinstance(got, list)
    if not answered:
        return
    b, d = got
    shape = "%s:%s" % (site, kind)
    if r["bindings"] == [SOAP] and site == "response_args":
        if (b, d) != (SOAP, ""):
            ctx.oracle_fail("soap-shortcut-address:%s" % shape, "bindings==[SOAP] produced %r" % (got,), dict(layout=layout, request=r))
        return
    if typ is None:
        ctx.oracle_fail("destination-for-soap-only-message:%s" % shape, "a %s got destination %r" % (kind, got),
                        dict(layout=layout, request=r))
        return
    eid = r["issuer"].strip() if r["issuer"] is not None else None
    role = "spsso" if kind in ("authn", "attribute_query") else (r["dt"] or "spsso")
    regs = registered(layout, eid, role, typ)
    # key granularity: call site, message class, issuer variant, URL variant (authn) / bindings argument (others)
    tg = r.get("tag", ("?", "?", "?"))
    tagtxt = "%s:%s" % (tg[0], tg[1] if kind == "authn" else tg[2])
    if not regs and not any(e["eid"] == eid for src in layout for e in src):
        ctx.oracle_fail("unknown-requester-answered:%s:%s" % (shape, tagtxt), "issuer %r is not in metadata, answered to %r" % (eid, got),
                        dict(layout=layout, request=r))
        return
    if (b, d) not in [(rb, rl) for rb, rl, _ in regs]:
        # the answered binding must be the registered endpoint's binding STRING, exactly: the destination is
        # registered, but only under a binding that contains / is contained in / differs in case from the answered one
        near = [rb for rb, rl, _ in regs if rl == d and rb != b and related(rb, b)]
        if near:
            ctx.oracle_fail("binding-string-not-exact:%s:%s:%s" % (shape, tagtxt, ":".join(map(str, tg[3:5]))),
                            "answered (%r, %r) but %r is registered for %s only under binding %r (a different string)"
                            % (b, d, d, eid, near), dict(layout=layout, request=r, over=over))
            return
        # ... or the pair belongs to an entity whose id merely resembles the issuer (trailing slash, case, prefix)
        alike = sorted(set(e["eid"] for src in layout for e in src if e["eid"] != eid and related(e["eid"], eid or "")
                           and (b, d) in [(rb, rl) for rb, rl, _ in registered(layout, e["eid"], role, typ)]))
        if alike:
            ctx.oracle_fail("other-entity-endpoint:%s:%s" % (shape, tagtxt),
                            "issuer %r answered with (%r, %r), which is registered for %r, not for the issuer" % (eid, b, d, alike),
                            dict(layout=layout, request=r, over=over))
            return
        ctx.oracle_fail("unregistered-endpoint:%s:%s" % (shape, tagtxt),
                        "(binding, destination) %r is not an endpoint registered for %s (%s, %s)" % (got, eid, role, typ),
                        dict(layout=layout, request=r))
        return
    url, idx = r.get("url"), r.get("index")
    if url:
        if d != url:
            ctx.oracle_fail("url-not-honoured-but-answered:%s:%s" % (shape, tagtxt),
                            "request names consumer URL %r, answered to %r" % (url, d), dict(layout=layout, request=r))
    elif idx:
        if (b, d, idx) not in regs:
            known = idx in [i for _, _, i in regs]
            ctx.count("index:" + ("known-index-answered-elsewhere" if known else "unknown-index-answered"))
            if not known:
                ctx.oracle_fail(INDEX_KEY,
                                "AuthnRequest with unknown AssertionConsumerServiceIndex %r (no URL) is answered to %r instead of being refused"
                                % (idx, got), dict(layout=layout, request=r))


def oracle_refused(ctx, layout, r, got, pref=(POST, REDIRECT, ARTIFACT)):
    """the other direction of `honoured iff registered`, only where it is
    unambiguous: one source describes SP1, URL registered there under a binding
    the request admits"""
    if r["kind"] != "authn" or isinstance(got, list) or got is None or not r.get("url"):
        return
    if r["issuer"] is None or r["issuer"].strip() != SP1 or r["bindings"] is not None:
        return
    if sum(1 for src in layout for e in src if e["eid"] == SP1) != 1:
        return
    regs = registered(layout, SP1, "spsso", "assertion_consumer_service")
    blist = [r["pb"]] if r["pb"] else list(pref)
    if any(l == r["url"] and b in blist for b, l, _ in regs):
        ctx.oracle_fail("registered-url-refused:%s:%s:pb-%s" % (r["tag"][0], r["tag"][1], r["tag"][3]),
                        "consumer URL %r is registered for %s under an admitted binding but the request was refused" % (r["url"], SP1),
                        dict(layout=layout, request=r))


# ---------------------------------------------------------------------------
# running
# ---------------------------------------------------------------------------
def run_layout(ctx, layout, lid, requests, do_oracle=True, over=None, pref=(POST, REDIRECT, ARTIFACT)):
    idp = env.make_idp(layout_xml(layout), **(over or {}))
    if not check_loaded(ctx, idp, layout, lid):
        return None, []
    pref = list(idp.config.preferred_binding.get("assertion_consumer_service", []))
    results = []
    for r in requests:
        x = call(idp.response_args, make_message(r), r["bindings"], r["dt"]) if r["dt"] else \
            call(idp.response_args, make_message(r), r["bindings"])
        got = observe(x)
        results.append(got)
        if do_oracle:
            oracle(ctx, layout, lid, r, got)
            oracle_refused(ctx, layout, r, got, pref)
    return idp, results


def book(ctx, lid, r, got):
    plain = r["kind"] == "authn" and not (r["url"] or r["index"] or r["pb"] or r["bindings"] is not None) and r["issuer"] == SP1
    ctx.nontriv((lid, "plain") if plain else (lid, r["kind"], r["issuer"], r["url"], r["index"], r["pb"], r["bindings"], r["dt"]))
    oc = "answered" if isinstance(got, list) else ("no-destination" if got is None else "refused")
    ctx.count("outcome:%s:%s" % (r["kind"], oc))
    if r["kind"] == "authn":
        ctx.count("url:%s:%s" % (r["tag"][1], oc))
        ctx.count("index:%s:%s" % (r["tag"][2], oc))


def strip_selfcheck(ctx):
    """the model's is_space table is Python's: checked over all code points"""
    ws = [c for c in range(0x110000) if (chr(c) + "a" + chr(c)).strip() == "a"]
    want = list(range(9, 14)) + list(range(28, 33)) + [133, 160, 5760] + list(range(8192, 8203)) + [8232, 8233, 8239, 8287, 12288]
    if ws != want:
        ctx.broken.append(("strip-table", "Python strips %r, the model %r" % (ws, want)))


def run(ctx):
    env.tool_inprocess(True)
    strip_selfcheck(ctx)
    layouts = [(("small", n), l) for n, l in enumerate(small_layouts())]
    layouts += [(("special", n), l) for n, l in enumerate(special_layouts())]
    nrand = 6 if ctx.quick else 60
    layouts += [(("random", n), random_layout(ctx.rng)) for n in range(nrand)]

    cases = []
    lay_terms = []
    prefs = set()
    with env.Clock(env.NOW):
        for k, (lid, layout) in enumerate(layouts):
            # quick tier: the complete (URL x index x ProtocolBinding) product on every layout; the
            # issuer x bindings-argument product on every third small layout; logout / manage-name-id on
            # the layouts that differ in their SLO endpoints; the layout-independent dispatch of the other
            # message classes on three layouts.  Thorough: everything everywhere.
            full = not ctx.quick
            small = lid[0] == "small"
            reqs = authn_requests(layout, full, thin=full or not small or lid[1] % 3 == 0)
            if full or lid[0] == "special" or (small and lid[1] < 8):
                reqs += other_requests(layout, ["logout", "manage_name_id"])
            if not ctx.quick or (small and lid[1] < 2) or lid == ("special", 3):
                reqs += other_requests(layout, OTHER_KINDS[2:])
            idp, results = run_layout(ctx, layout, lid, reqs)
            lay_terms.append(layout_coq(layout))
            if idp is None:
                continue
            prefs.add(pref_coq(idp))
            for r, got in zip(reqs, results):
                cases.append(dict(
                    id=len(cases),
                    coq="(%d%%nat, %s, %s, %s)" % (k, request_coq(r), cbindings(r["bindings"]), cstr(r["dt"])),
                    impl=got, show=dict(layout=lid, request={x: r[x] for x in ("kind", "issuer", "url", "index", "pb", "bindings", "dt")},
                                        metadata=layout if lid[0] != "small" else "small_layouts()[%d]" % lid[1])))
                book(ctx, lid, r, got)
                if len(cases) % 1500 == 1:
                    ctx.sample(dict(case=cases[-1]["show"], outcome=got))
    ctx.count("layouts", len(layouts))
    ctx.exhaustive = True
    ctx.notes.append("exhaustive: every 1- and 2-endpoint ACS layout over {POST,REDIRECT,ARTIFACT} x {same, prefix-related} locations "
                     "x (14 URL variants x index variants x 6 ProtocolBinding variants) for the known issuer, and the thinner product "
                     "over 8 issuer variants x 6 bindings arguments; random larger layouts (1-4 endpoints, split descriptors, "
                     "entity in two sources) on top")
    fn = "run_ra_x" if EXACT else "run_ra"
    # `let` so that the VM builds the layout table once, not once per case
    model = ("let layouts : list mdstore := %s in fun c : (nat * request * option (list str) * str) => "
             "match c with (n, r, bs, dt) => %s (idp_config %s, nth n layouts [], r, bs, dt) end"
             % ("[" + ";\n ".join(lay_terms) + "]", fn, sorted(prefs)[0] if prefs else "default_preferred"))
    if len(prefs) > 1:
        ctx.broken.append(("preferred_binding", "identically configured IdPs report different preferred_binding tables: %r" % sorted(prefs)))
    ctx.correspond("response_args", "Model.PickBinding", model, "(nat * request * option (list str) * str)", cases,
                   shard=400 if ctx.quick else 1500, timeout=900)
    import time as _t
    _T = [_t.time()]
    def _tick(n):
        if os.environ.get("C09_TIMING"):
            print("  [timing] %s %.1fs" % (n, _t.time() - _T[0]))
        _T[0] = _t.time()
    _tick("main")
    run_configs(ctx); _tick("configs")
    run_pick_binding(ctx); _tick("pick_binding")
    run_parsed(ctx); _tick("parsed")
    run_bindstr(ctx); _tick("bindstr")


def run_configs(ctx):
    """configuration switch preferred_binding, on an IdP and (entity_type sp) on a Saml2Client"""
    layout = special_layouts()[3]
    prefs = [
        ("acs-artifact-redirect", {"assertion_consumer_service": [ARTIFACT, REDIRECT]},
         "[(ACS, [B_ARTIFACT; B_REDIRECT])]"),
        ("acs-empty", {"assertion_consumer_service": [], "single_logout_service": [POST]}, "[(ACS, []); (SLO, [B_POST])]"),
        ("acs-redirect-first", {"assertion_consumer_service": [REDIRECT, POST], "single_logout_service": [REDIRECT, SOAP]},
         "[(ACS, [B_REDIRECT; B_POST]); (SLO, [B_REDIRECT; B_SOAP])]"),
    ]
    cases = []
    lt = layout_coq(layout)
    with env.Clock(env.NOW):
        for name, pref, pcoq in prefs:
            reqs = [r for r in authn_requests(layout, False) if r["tag"][0] in ("sp1", "nobody") and r["tag"][4] in ("none", "post")]
            reqs += [r for r in other_requests(layout) if r["kind"] == "logout"]
            idp, results = run_layout(ctx, layout, ("config", name), reqs, over={"preferred_binding": pref})
            if idp is None:
                continue
            pcoq = pref_coq(idp)
            for r, got in zip(reqs, results):
                cases.append(dict(id=len(cases), coq="(%s, %s, %s, %s)" % (pcoq, request_coq(r), cbindings(r["bindings"]), cstr(r["dt"])),
                                  impl=got, show=dict(preferred=name, request={x: r[x] for x in ("kind", "issuer", "url", "index", "pb", "bindings", "dt")})))
                book(ctx, ("config", name), r, got)
                ctx.count("config:" + name)
    fn = "run_ra_x" if EXACT else "run_ra"
    model = ("let md : mdstore := %s in fun c : (list (svc * list str) * request * option (list str) * str) => "
             "match c with (p, r, bs, dt) => %s (idp_config p, md, r, bs, dt) end" % (lt, fn))
    ctx.correspond("response_args_preferred_binding", "Model.PickBinding", model,
                   "(list (svc * list str) * request * option (list str) * str)", cases, shard=400)


# ---------------------------------------------------------------------------
# binding strings / entity ids that contain each other
# ---------------------------------------------------------------------------
BASE = "urn:oasis:names:tc:SAML:2.0:bindings:"
SS = POST + "-SimpleSign"            # registered HTTP-POST is a proper prefix of it
B_HTTP = BASE + "HTTP"               # proper prefix of POST / REDIRECT / ARTIFACT
POST_SL = POST + "/"
POST_LC, POST_UC = POST.lower(), POST.upper()
REDIR_LC = BASE + "HTTP-redirect"
# binding strings a metadata endpoint can carry (the loader strips surrounding white space, so padded
# strings only occur in requests)
MD_BINDINGS = [SS, B_HTTP, POST_SL, POST_LC, POST_UC, "HTTP-POST", REDIR_LC]
REQ_BINDINGS = [("post", POST), ("simplesign", SS), ("http-prefix", B_HTTP), ("post-slash", POST_SL), ("post-lower", POST_LC),
                ("post-upper", POST_UC), ("post-space", POST + " "), ("space-post", " " + POST), ("post-chopped", POST[:-1]),
                ("post-suffix", "HTTP-POST"), ("redirect", REDIRECT), ("redirect-lower", REDIR_LC), ("base", BASE)]
SOAPISH = [("soap-space", [SOAP + " "]), ("soap-lower", [SOAP.lower()]), ("soap-ext", [SOAP + "-x"]), ("soap-chopped", [SOAP[:-1]]),
           ("soap-soap", [SOAP, SOAP]), ("soap-slash", [SOAP + "/"]), ("paos-soap", [PAOS, SOAP])]
SP1_SL, SP1_UC, SP1_HOST = SP1 + "/", SP1.upper(), SP1.replace("sp.example.org", "SP.example.org")
EID_ACS = {SP1: "https://sp.example.org/acs/a", SP1_SL: "https://sp.example.org/acs/slash",
           SP1_UC: "https://sp.example.org/acs/upper", SP1_HOST: "https://sp.example.org/acs/host",
           SP1[:-1]: "https://sp.example.org/acs/chopped"}


def bindstr_layouts():
    """(name, layout): SP1's endpoints registered under binding strings that contain / are contained in /
    differ in case from the standard ones, alone and next to the standard binding, in both orders"""
    a, ab, b, c = LOCS
    out = []
    k = 0
    for m in MD_BINDINGS:
        out.append(("only:" + m, [[entity(SP1, [_acs_desc([(m, a)], k)])], [SP2_ENT]]))
        for eps in ([(m, a), (POST, b)], [(POST, a), (m, b)], [(m, a), (POST, a)]):
            k += 1
            out.append(("pair:%s|%s%s" % (eps[0][0], eps[1][0], "@same" if eps[0][1] == eps[1][1] else ""),
                        [[entity(SP1, [_acs_desc(eps, k)])], [SP2_ENT]]))
    # three generations of the same binding in one descriptor, and the long one in a second descriptor / second source
    out.append(("chain", [[entity(SP1, [_acs_desc([(B_HTTP, a), (SS, b), (POST, c)], 1)])], [SP2_ENT]]))
    out.append(("two-descs", [[entity(SP1, [_acs_desc([(SS, a)], 0), _acs_desc([(POST, b)], 0, first_index=1)])], [SP2_ENT]]))
    out.append(("two-sources-long-first", [[entity(SP1, [_acs_desc([(SS, a)], 0)])],
                                           [entity(SP1, [_acs_desc([(POST, b)], 0, first_index=1)])], [SP2_ENT]]))
    out.append(("two-sources-long-later", [[entity(SP1, [_acs_desc([(REDIRECT, a)], 0)])],
                                           [entity(SP1, [_acs_desc([(SS, b), (POST_LC, c)], 0, first_index=1)])], [SP2_ENT]]))
    # logout / manage-name-id endpoints under such bindings
    slo = [sv("single_logout_service", SS, "https://sp.example.org/slo/ss"),
           sv("single_logout_service", POST, "https://sp.example.org/slo/p"),
           sv("single_logout_service", SOAP + "-x", "https://sp.example.org/slo/soapx"),
           sv("manage_name_id_service", POST_LC, "https://sp.example.org/mni/lc"),
           sv("manage_name_id_service", REDIRECT, "https://sp.example.org/mni/r")]
    out.append(("slo-mixed", [[entity(SP1, [_acs_desc([(POST, a)], 0) + slo])], [SP2_ENT]]))
    slo2 = [sv("single_logout_service", B_HTTP, "https://sp.example.org/slo/http"),
            sv("single_logout_service", SOAP.lower(), "https://sp.example.org/slo/soaplc"),
            sv("manage_name_id_service", SS, "https://sp.example.org/mni/ss")]
    out.append(("slo-only-near", [[entity(SP1, [_acs_desc([(SS, a)], 0) + slo2],
                                          idp_slo=[(SS, "https://sp.example.org/idp-slo/ss")])], [SP2_ENT]]))
    return out


def _eid_ent(eid, k=0):
    return entity(eid, [_acs_desc([(POST, EID_ACS[eid])], k) +
                        [sv("single_logout_service", POST, EID_ACS[eid].replace("/acs/", "/slo/"))]])


def eid_layouts():
    """entity ids that differ from each other by a trailing slash / case / one character, spread over several
    sources in every interesting order (the longer id in a later source, in an earlier one, in the same one)"""
    out = []
    out.append(("short-then-long", [[_eid_ent(SP1)], [_eid_ent(SP1_SL, 1)], [SP2_ENT], [_eid_ent(SP1_UC, 2)]]))
    out.append(("long-then-short", [[_eid_ent(SP1_SL)], [_eid_ent(SP1_UC, 1)], [SP2_ENT], [_eid_ent(SP1, 2)]]))
    out.append(("one-source", [[_eid_ent(SP1_UC), _eid_ent(SP1_SL, 1), _eid_ent(SP1, 2), _eid_ent(SP1_HOST)], [SP2_ENT]]))
    out.append(("only-long", [[SP2_ENT], [_eid_ent(SP1_SL)], [_eid_ent(SP1_HOST, 1)]]))       # SP1 itself is NOT registered
    out.append(("only-short", [[_eid_ent(SP1[:-1])], [SP2_ENT], [_eid_ent(SP1, 1)]]))         # a proper prefix id comes first
    out.append(("only-chopped", [[_eid_ent(SP1[:-1])], [SP2_ENT]]))
    return out


EID_ISSUERS = [("sp1", SP1), ("sp1-slash", SP1_SL), ("sp1-upper", SP1_UC), ("sp1-host", SP1_HOST), ("sp1-chopped", SP1[:-1]),
               ("sp1-slash-padded", " " + SP1_SL + "\n"), ("sp1-2slash", SP1 + "//"), ("sp1-scheme-upper", SP1.replace("https", "HTTPS")),
               ("sp1-ext", SP1 + "x")]


def _req(issuer, url, index, pb, bindings, tag, kind="authn", dt=""):
    return dict(kind=kind, issuer=issuer, url=url, index=index, pb=pb, bindings=bindings, dt=dt, tag=tag)


def bindstr_requests(layout, quick):
    regs = registered(layout, SP1, "spsso", "assertion_consumer_service")
    locs = []
    for _, l, _ in regs:
        if l not in locs:
            locs.append(l)
    ui = [("absent", None, "absent", None)] + [("registered%d" % n, l, "absent", None) for n, l in enumerate(locs)]
    ui += [("unregistered", EVIL, "absent", None)]
    ui += [("absent", None, "idx" + i, i) for i in sorted(set(i for _, _, i in regs)) + ["7"]]
    out = []
    for (pl, pb), (ul, u, il, i) in itertools.product([("absent", None)] + REQ_BINDINGS, ui):
        out.append(_req(SP1, u, i, pb, None, ("sp1", ul, il, pl, "none")))
    args = [(l, [b]) for l, b in REQ_BINDINGS]
    args += [("simplesign-post", [SS, POST]), ("post-simplesign", [POST, SS]), ("http-post", [B_HTTP, POST]),
             ("lower-post", [POST_LC, POST]), ("padded-post", [POST + " ", POST]), ("upper-slash-suffix", [POST_UC, POST_SL, "HTTP-POST"])]
    args += SOAPISH
    # quick tier: a bindings argument with no URL / the last registered URL / the last registered index / an unknown index
    ui_args = [x for n, x in enumerate(ui) if not quick or x[0] == "absent" and x[2] in ("absent", "idx7") or
               x[0] == "registered%d" % (len(locs) - 1) or (n == len(ui) - 2 and x[2] != "absent")]
    for (bl, bs), (ul, u, il, i), (pl, pb) in itertools.product(args, ui_args, [("absent", None), ("post", POST), ("simplesign", SS)]):
        if pl != "absent" and (quick or il != "absent"):
            continue
        out.append(_req(SP1, u, i, pb, bs, ("sp1", ul, il, pl, bl)))
    # logout / manage name id: the same wrappers, descr_type given / defaulted / idpsso
    lb = [("none", None)] + [(l, [b]) for l, b in REQ_BINDINGS if l not in ("space-post", "post-suffix", "base")]
    lb += [("simplesign-post", [SS, POST]), ("soap", [SOAP]), ("soap-post", [SOAP, POST])] + SOAPISH
    if any(s["type"] != "assertion_consumer_service" for src in layout for e in src if e["eid"] == SP1 for d in e["descs"] for s in d):
        for kind, (bl, bs), dt in itertools.product(("logout", "manage_name_id"), lb, ("", "spsso", "idpsso")):
            out.append(_req(SP1, None, None, None, bs, ("sp1", kind, bl, dt or "default", bl), kind=kind, dt=dt))
    else:
        for (bl, bs) in SOAPISH:     # the SOAP short-cut is an exact list comparison for every message class
            out.append(_req(SP1, None, None, None, bs, ("sp1", "logout", bl, "default", bl), kind="logout"))
    return out


def eid_requests(layout):
    out = []
    for (sl, iss) in EID_ISSUERS:
        eid = iss.strip()
        own = EID_ACS.get(eid)
        urls = [("absent", None)] + [("acs-of:" + k.replace(SP1, "sp1"), v) for k, v in sorted(EID_ACS.items())]
        for (ul, u), (il, i), (pl, pb), (bl, bs) in itertools.product(
                urls, [("absent", None), ("idx0", "0")], [("absent", None), ("post", POST)], [("none", None), ("post", [POST])]):
            if u and i:
                continue
            out.append(_req(iss, u, i, pb, bs, (sl, ul, il, pl, bl)))
        for kind, (bl, bs), dt in itertools.product(("logout", "manage_name_id"), [("none", None), ("post", [POST])], ("", "spsso")):
            out.append(_req(iss, None, None, None, bs, (sl, kind, bl, dt or "default", bl), kind=kind, dt=dt))
    return out


BINDSTR_PREFS = [
    ("default", None),
    ("simplesign-first", {"assertion_consumer_service": [SS, POST], "single_logout_service": [SS, SOAP + "-x", POST]}),
    ("near-misses-only", {"assertion_consumer_service": [B_HTTP, POST_UC, POST + " "], "single_logout_service": [SOAP.lower(), B_HTTP],
                          "manage_name_id_service": [POST_LC]}),
    ("post-then-long", {"assertion_consumer_service": [POST, SS, POST_LC], "manage_name_id_service": [SS, REDIRECT]}),
]


def run_bindstr(ctx):
    """unit response_args_binding_strings: one correspondence over (layout, preferred_binding, request)"""
    lays = [(("bindstr", n), l) for n, l in bindstr_layouts()]
    elays = [(("eid", n), l) for n, l in eid_layouts()]
    cases, terms, ptab = [], [], []
    with env.Clock(env.NOW):
        for k, (lid, layout) in enumerate(lays + elays):
            terms.append(layout_coq(layout))
            for pn, pref in BINDSTR_PREFS:
                if lid[0] == "eid":
                    if pn != "default":
                        continue
                    reqs = eid_requests(layout)
                else:
                    reqs = bindstr_requests(layout, ctx.quick)
                    if pn != "default":   # the preference only matters when neither bindings nor ProtocolBinding is given
                        reqs = [r for r in reqs if r["bindings"] is None and not r["pb"]]
                over = {"preferred_binding": pref} if pref else {}
                idp = env.make_idp(layout_xml(layout), **over)
                if not check_loaded(ctx, idp, layout, lid):
                    break
                acs_pref = list(idp.config.preferred_binding.get("assertion_consumer_service", []))
                pcoq = pref_coq(idp)
                if pcoq not in ptab:
                    ptab.append(pcoq)
                pi = ptab.index(pcoq)
                # ONE long-lived server answers the whole request list of the layout
                for r in reqs:
                    x = call(idp.response_args, make_message(r), r["bindings"], r["dt"]) if r["dt"] else \
                        call(idp.response_args, make_message(r), r["bindings"])
                    got = observe(x)
                    oracle(ctx, layout, lid, r, got, over=over)
                    oracle_refused(ctx, layout, r, got, acs_pref)
                    cases.append(dict(
                        id=len(cases),
                        coq="(%d%%nat, %d%%nat, %s, %s, %s)" % (k, pi, request_coq(r), cbindings(r["bindings"]), cstr(r["dt"])),
                        impl=got, show=dict(layout=lid, preferred=pn, metadata=layout,
                                            request={x: r[x] for x in ("kind", "issuer", "url", "index", "pb", "bindings", "dt")})))
                    ctx.nontriv((lid, pn, r["kind"], r["issuer"], r["url"], r["index"], r["pb"], r["bindings"], r["dt"]))
                    oc = "answered" if isinstance(got, list) else ("no-destination" if got is None else "refused")
                    ctx.count("%s:%s:%s" % (lid[0], r["kind"], oc))
                    if lid[0] == "eid":
                        ctx.count("eid-issuer:%s:%s" % (r["tag"][0], oc))
                    elif r["kind"] == "authn":
                        ctx.count("binding-string:%s:%s" % (r["tag"][3] if r["bindings"] is None else "arg-" + r["tag"][4], oc))
                    if len(cases) % 900 == 1:
                        ctx.sample(dict(case=cases[-1]["show"], outcome=got))
    ctx.count("layouts:binding-strings", len(lays))
    ctx.count("layouts:entity-ids", len(elays))
    fn = "run_ra_x" if EXACT else "run_ra"
    typ = "(nat * nat * request * option (list str) * str)"
    model = ("let layouts : list mdstore := %s in let prefs : list (list (svc * list str)) := %s in fun c : %s => "
             "match c with (n, p, r, bs, dt) => %s (idp_config (nth p prefs []), nth n layouts [], r, bs, dt) end"
             % ("[" + ";\n ".join(terms) + "]", "[" + ";\n ".join(ptab) + "]", typ, fn))
    ctx.correspond("response_args_binding_strings", "Model.PickBinding", model, typ, cases, shard=700 if ctx.quick else 1500, timeout=900)
    run_bindstr_pick(ctx, dict(lays)[("bindstr", "chain")], dict(elays)[("eid", "short-then-long")])


def run_bindstr_pick(ctx, chain, eids):
    """pick_binding called directly with an explicit entity_id / bindings (no request), and with a duck-typed request"""
    cases, lts = [], []
    for ln, (lname, layout) in enumerate((("chain", chain), ("eid", eids))):
        idp = env.make_idp(layout_xml(layout))
        lts.append(layout_coq(layout))
        pc = pref_coq(idp)
        for service, (bl, bs), (sl, eid), dt in itertools.product(
                ["assertion_consumer_service", "single_logout_service"],
                [("none", None)] + [(l, [b]) for l, b in REQ_BINDINGS] + [("simplesign-post", [SS, POST]), ("http-post", [B_HTTP, POST])],
                [(l, e.strip()) for l, e in EID_ISSUERS if l != "sp1-slash-padded"], ["", "spsso"]):
            got = observe(call(idp.pick_binding, service, bs, dt, None, eid))
            cases.append(dict(id=len(cases), coq="(%d%%nat, %s, %s, %s, %s)" % (ln, SVC[service], cbindings(bs), cstr(dt), cstr(eid)),
                              impl=got, show=dict(layout=lname, service=service, bindings=bs, entity_id=eid, descr_type=dt)))
            r = _req(eid, None, None, None, bs, (sl, service, bl, dt or "default", bl),
                     kind="authn" if service == "assertion_consumer_service" else "logout", dt=dt)
            oracle(ctx, layout, ("pick_binding", lname), r, got, site="pick_binding")
            ctx.nontriv(("pbs", lname, service, bs, eid, dt))
            ctx.count("pick_binding:binding-strings:%s" % ("answered" if isinstance(got, list) else "refused"))
    fn = "run_pb_x" if EXACT else "run_pb"
    typ = "(nat * svc * option (list str) * str * str)"
    model = ("let mds : list mdstore := [%s] in fun c : %s => match c with (n, s, bs, dt, eid) => "
             "%s (idp_config %s, nth n mds [], s, bs, dt, None, eid) end" % (";\n ".join(lts), typ, fn, pc))
    ctx.correspond("pick_binding_binding_strings", "Model.PickBinding", model, typ, cases, shard=600)


class Duck(object):
    """a request-like object whose attribute set is chosen per case, to reach
    every branch of the try/except AttributeError structure"""
    def __init__(self, **kw):
        self.__dict__.update(kw)


def run_pick_binding(ctx):
    """pick_binding called directly (it is public and used by the SP side too):
    all four services, request None / entity_id given, attribute presence
    combinations, on an IdP and on an SP entity"""
    layout = special_layouts()[3]
    lt = layout_coq(layout)
    idp = env.make_idp(layout_xml(layout))
    spc = env.make_sp(idp_md=layout_xml(layout))
    regs = registered(layout, SP1, "spsso", "assertion_consumer_service")
    url_ok = regs[0][1]
    cases = []
    attr_vals = {
        "pb": [("missing",), ("has", None), ("has", REDIRECT)],
        "url": [("missing",), ("has", None), ("has", url_ok), ("has", EVIL), ("has", "")],
        "index": [("missing",), ("has", None), ("has", "1"), ("has", "7"), ("has", "")],
    }
    services = ["assertion_consumer_service", "single_logout_service", "manage_name_id_service", "attribute_consuming_service"]
    for (ename, ent, ccoq), service, pb, url, idx, bs, eid, dt in itertools.product(
            [("idp", idp, "false"), ("sp", spc, "true")],
            services, attr_vals["pb"], attr_vals["url"], attr_vals["index"],
            [None, [POST], [REDIRECT, POST]], ["", SP1], ["", "spsso", "idpsso"]):
        if service != "assertion_consumer_service" and (url[-1] in (EVIL, "") or idx[-1] in ("", None) or dt == "spsso" and ename == "idp"):
            continue
        if ename == "sp" and (service == "attribute_consuming_service" or eid or url[-1] == ""):
            continue
        kw = {"issuer": saml.Issuer(text=SP1)}
        for nm, a in (("protocol_binding", pb), ("%s_url" % service, url), ("%s_index" % service, idx)):
            if a[0] == "has":
                kw[nm] = a[1]
        got = observe(call(ent.pick_binding, service, bs, dt, Duck(**kw), eid))
        rq = "(Some (mk_req KOther (Some (Some %s)) %s %s %s))" % (
            cstr(SP1), cattr(pb[0] == "has", pb[-1]), cattr(url[0] == "has", url[-1]), cattr(idx[0] == "has", idx[-1]))
        r = dict(kind="authn" if service == "assertion_consumer_service" else
                 {"single_logout_service": "logout", "manage_name_id_service": "manage_name_id",
                  "attribute_consuming_service": "attribute_query"}[service],
                 issuer=eid or SP1, url=url[-1] if url[0] == "has" else None,
                 index=None,   # the index oracle is about AuthnRequest objects; duck objects only feed the correspondence
                 pb=None, bindings=bs, dt=dt or ("idpsso" if ename == "sp" else ""), tag=(ename, service, pb[0], url[0], idx[0]))
        cases.append(dict(id=len(cases), coq="(%s, %s, %s, %s, %s, %s)" % (ccoq, SVC[service], cbindings(bs), cstr(dt), rq, cstr(eid)),
                          impl=got, show=dict(entity=ename, service=service, pb=pb, url=url, index=idx, bindings=bs, entity_id=eid, descr_type=dt)))
        oracle(ctx, layout, ("pick_binding", ename), r, got, site="pick_binding")
        ctx.nontriv(("pb", ename, service, pb, url, idx, bs, eid, dt))
        ctx.count("pick_binding:%s:%s" % (ename, "answered" if isinstance(got, list) else "refused"))
    # request None, entity_id given (how the SP side uses it)
    for (ename, ent, ccoq), service, bs, eid, dt in itertools.product(
            [("idp", idp, "false"), ("sp", spc, "true")],
            services, [None, [POST], [ARTIFACT, REDIRECT], [""]], [SP1, SP2, NOBODY, ""], ["", "spsso", "idpsso"]):
        got = observe(call(ent.pick_binding, service, bs, dt, None, eid))
        cases.append(dict(id=len(cases), coq="(%s, %s, %s, %s, None, %s)" % (ccoq, SVC[service], cbindings(bs), cstr(dt), cstr(eid)),
                          impl=got, show=dict(entity=ename, service=service, bindings=bs, entity_id=eid, descr_type=dt, request=None)))
        ctx.count("pick_binding:no-request:%s" % ("answered" if isinstance(got, list) else "refused"))
    fn = "run_pb_x" if EXACT else "run_pb"
    model = ("let md : mdstore := %s in fun c : (bool * svc * option (list str) * str * option request * str) => "
             "match c with (sp, s, bs, dt, r, eid) => %s ({| cf_is_sp := sp; cf_preferred := if sp then %s else %s |}, md, s, bs, dt, r, eid) end"
             % (lt, fn, pref_coq(spc), pref_coq(idp)))
    ctx.correspond("pick_binding", "Model.PickBinding", model, "(bool * svc * option (list str) * str * option request * str)",
                   cases, shard=400)


def run_parsed(ctx):
    """requests that went through the IdP's own parser behave like the
    constructed objects: both attributes exist (None when absent from the XML)"""
    import base64
    layout = small_layouts()[4]
    idp = env.make_idp(layout_xml(layout), idp={"endpoints": {"single_sign_on_service": [(env.IDP_SSO, POST)]}})
    cases = []
    with env.Clock(env.NOW):
        for (ul, u), (il, i), (pl, pb) in itertools.product(
                [x for x in url_variants(layout) if x[0] in ("absent", "registered0", "unregistered", "trailing-slash", "case-path")],
                index_variants(layout), PB_VARIANTS[:3]):
            r = dict(kind="authn", issuer=SP1, url=u, index=i, pb=pb, bindings=None, dt="", tag=("sp1", ul, il, pl, "parsed"))
            if u == "" or i == "":
                continue
            b64 = base64.b64encode(str(make_message(r)).encode()).decode()
            parsed = call(idp.parse_authn_request, b64, POST)
            if isinstance(parsed, Exn) or parsed is None:
                ctx.broken.append(("parsed-request", "parse_authn_request refused a well-formed generated request: %r" % (parsed,)))
                return
            got = observe(call(idp.response_args, parsed.message))
            oracle(ctx, layout, ("parsed",), r, got)
            oracle_refused(ctx, layout, r, got, list(idp.config.preferred_binding.get("assertion_consumer_service", [])))
            cases.append(dict(id=len(cases), coq="(idp_config %s, %s, %s, None, ([]:str))" % (pref_coq(idp), layout_coq(layout), request_coq(r)),
                              impl=got, show=dict(parsed=True, request={x: r[x] for x in ("url", "index", "pb")})))
            ctx.nontriv(("parsed", u, i, pb))
            ctx.count("parsed:" + ("answered" if isinstance(got, list) else "refused"))
    ctx.correspond("response_args_parsed_request", "Model.PickBinding", "run_ra_x" if EXACT else "run_ra", "ra_case", cases)


# ---------------------------------------------------------------------------
def cex_search(ctx):
    """something no longer checks: state the property on a much larger space
    (implementation only)"""
    env.tool_inprocess(True)
    with env.Clock(env.NOW):
        for n in range(300):
            layout = random_layout(ctx.rng)
            reqs = authn_requests(layout, True) + other_requests(layout)
            run_layout(ctx, layout, ("cex", n), reqs)
            if len(set(k for k, _, _ in ctx.oracle_failures) - {INDEX_KEY}) >= 5:
                break


def replay(ctx, payload):
    env.tool_inprocess(True)
    inp = payload.get("input") or {}
    print("replay input:", json.dumps(inp)[:2000])
    if "layout" not in inp:
        print("no concrete input in this replay file (broken obligation / correspondence): see its fields")
        return 0
    layout, r = inp["layout"], inp["request"]
    idp = env.make_idp(layout_xml(layout), **(inp.get("over") or {}))
    with env.Clock(env.NOW):
        x = call(idp.response_args, make_message(r), r["bindings"], r["dt"] or "")
    print("registered for issuer:", registered(layout, (r["issuer"] or "").strip(), r["dt"] or "spsso", KIND_SERVICE.get(r["kind"], "")))
    print("implementation outcome:", observe(x) if not isinstance(x, Exn) else x)
    return 0
