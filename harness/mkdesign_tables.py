"""Rewrite the generated blocks of DESIGN.md (between <!-- BEGIN:name --> and <!-- END:name -->)
from the committed state: seeded/*/meta.json, known_findings.json, MANIFEST.json."""
import json
import os
import re

ROOT = os.path.dirname(os.path.dirname(os.path.abspath(__file__)))


def seeded_table():
    rows = ["| seed | property | what the change needs in order to manifest | caught by `./check <prop>` (quick) | first report |",
            "|---|---|---|---|---|"]
    for d in sorted(os.listdir(ROOT + "/seeded")):
        p = "%s/seeded/%s/meta.json" % (ROOT, d)
        if not os.path.exists(p):
            continue
        m = json.load(open(p))
        need = (m.get("needs_to_manifest") or "").strip().split("\n")[0].lstrip("# ").replace("|", "/")[:140]
        db = m.get("detected_by")
        if isinstance(db, dict):
            caught = "yes (exit 1)" if db.get("detected") else "NO (%s)" % db.get("exit")
            first = (db.get("first_reports") or [""])[0].strip().replace("|", "/")[:160]
        else:
            caught, first = "not yet run", ""
        rows.append("| %s | %s | %s | %s | %s |" % (d, m.get("property"), need, caught, first))
    return "\n".join(rows)


def fixed_table():
    k = json.load(open(ROOT + "/known_findings.json"))
    rows = ["| property | commit in /repo | what failed | found by |", "|---|---|---|---|"]
    for f in k.get("fixed", []):
        what = re.sub(r"^fixed: property=\S+ \S+ ", "", f.get("line", "")).replace("|", "/")
        rows.append("| %s | `%s` | %s | %s |" % (f["property"], f["commit"], what[:300], (f.get("found_by") or "").replace("|", "/")[:160]))
    return "\n".join(rows)


def findings_table():
    k = json.load(open(ROOT + "/known_findings.json"))
    by = {}
    for f in k.get("findings", []):
        by.setdefault(f["property"], []).append(f)
    rows = ["| property | recorded findings | keys (first few) |", "|---|---|---|"]
    for p in sorted(by):
        rows.append("| %s | %d | %s |" % (p, len(by[p]), ", ".join("`%s`" % f["key"] for f in by[p][:4]) + (" …" if len(by[p]) > 4 else "")))
    return "\n".join(rows) if by else "(none)"


def claims_table():
    m = json.load(open(ROOT + "/MANIFEST.json"))
    rows = ["| property | status | technique |", "|---|---|---|"]
    for c in m["checks"]:
        rows.append("| %s | claimed (`proof`) | %s |" % (c["property_id"], c["technique"].replace("|", "/")))
    for n in m["not_applicable"]:
        rows.append("| %s | not claimed | %s |" % (n["property_id"], n["reason"].replace("|", "/")[:200]))
    rows.sort(key=lambda r: r.split("|")[1].strip() if r.startswith("| C") else "")
    return "\n".join(rows)


def refactors_table():
    d0 = ROOT + "/refactors"
    rows = ["| refactor | property | what was rewritten (behaviour-preserving) | `./check <prop>` (quick) |", "|---|---|---|---|"]
    if not os.path.isdir(d0):
        return "(none)"
    for d in sorted(os.listdir(d0)):
        p = "%s/%s/meta.json" % (d0, d)
        if not os.path.exists(p):
            continue
        m = json.load(open(p))
        what = " ".join((m.get("what") or "").strip().split("\n")[:2]).lstrip("# ").replace("|", "/")[:170]
        cr = m.get("check_result")
        res = ("stayed green (exit 0)" if cr.get("stayed_green") else ("not run: " + "; ".join(cr.get("reports") or [])[:120] if cr.get("stayed_green") is None else "FALSE ALARM (%s)" % cr.get("exit"))) if isinstance(cr, dict) else "not yet run"
        rows.append("| %s | %s | %s | %s |" % (d, m.get("property"), what, res))
    return "\n".join(rows)


def built_table():
    import glob
    rows = ["| property | theorems in Props | model / proof files it imports | lines (model+proofs) | harness | notes |", "|---|---|---|---|---|---|"]
    for f in sorted(glob.glob(ROOT + "/coq/Props/C*.v")):
        pid = os.path.basename(f)[:-2]
        t = re.sub(r"\(\*.*?\*\)", "", open(f).read(), flags=re.S)
        n = len(re.findall(r"^\s*(Theorem|Lemma|Corollary|Example|Fact|Proposition)\s", t, flags=re.M))
        mods = []
        for w in re.findall(r"\b((?:Model|Proofs|Gen)\.[A-Za-z_0-9]+)", t):
            if w not in mods:
                mods.append(w)
        lines = 0
        for m in mods:
            pth = "%s/coq/%s.v" % (ROOT, m.replace(".", "/"))
            if os.path.exists(pth):
                lines += sum(1 for _ in open(pth))
        h = "harness/props/%s.py" % pid.lower()
        hl = sum(1 for _ in open(ROOT + "/" + h)) if os.path.exists(ROOT + "/" + h) else 0
        doc = "docs/%s.md" % pid if os.path.exists("%s/docs/%s.md" % (ROOT, pid)) else ""
        rows.append("| %s | %d | %s | %d | %s (%d lines) | %s |" % (pid, n, ", ".join(mods), lines, h, hl, doc))
    return "\n".join(rows)


BLOCKS = {"built": built_table, "refactors": refactors_table, "seeded": seeded_table, "fixed": fixed_table, "findings": findings_table, "claims": claims_table}


def main():
    p = ROOT + "/DESIGN.md"
    s = open(p).read()
    for name, fn in BLOCKS.items():
        pat = re.compile(r"(<!-- BEGIN:%s -->\n).*?(<!-- END:%s -->)" % (name, name), re.S)
        if pat.search(s):
            s = pat.sub(lambda mm: mm.group(1) + fn() + "\n" + mm.group(2), s)
    open(p, "w").write(s)


if __name__ == "__main__":
    main()
