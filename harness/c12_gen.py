"""C12 generators beyond schema_gen.Gen (which C13 shares and which therefore stays as it is):

  * look-alike attributes: an undeclared attribute whose LOCAL name is that of a declared one
    (qualified with the element's own namespace, a foreign namespace, the xml namespace, or not
    qualified when the declared one is), alone and together with the declared attribute, at the
    root and on nested objects;
  * look-alike children: an unknown child whose tag has the local name of a known child in
    another (or no) namespace;
  * foreign elements with text AND children at every depth (<= 3), white space at the start /
    end / only, known tags inside foreign elements;
  * documents with tails (pretty-printed), reversed attribute order;
  * renderings of ElementTree elements as Model.SchemaDoc.dtree terms / values (with tails).
"""
import copy
from xml.etree import ElementTree as ET

import schema_gen
import translate_schema
from schema_gen import Gen, FOREIGN_NS, _pairs_coq, _text_coq
from translate_schema import split_name

WS = ["  ", "\n  ", "\t", " \n ", "\n", " "]
EDGE = [" lead", "trail ", "  both  ", "\nline\n", "a  b"]
TAILS = [None, None, "\n  ", " ", "\n", "tail text", " t ", "\t"]


class Gen12(Gen):
    def __init__(self, rng, T=None, skip_members=(), skip_classes=()):
        Gen.__init__(self, rng, T, skip_members, skip_classes)
        self.stats = {}

    def _c(self, k):
        self.stats[k] = self.stats.get(k, 0) + 1

    def elem_text(self):
        """text of an element: now and then white space only, or with white space at an end"""
        x = self.rng.random()
        if x < 0.2:
            return self.rng.choice(WS)
        if x < 0.35:
            return self.rng.choice(EDGE)
        return self.text()

    # ---- foreign content
    def foreign_elem(self, depth=1, known_tag=None):
        from saml2_tophat import ExtensionElement
        r, T = self.rng, self.T
        if known_tag:
            ns, tag = split_name(known_tag)
        else:
            ns, tag = r.choice([(FOREIGN_NS, "Ext%d" % r.randint(0, 3)), (None, "bare%d" % r.randint(0, 2)),
                                (FOREIGN_NS + ":b", "Other")])
        e = ExtensionElement(tag, ns)
        if r.random() < 0.6:
            e.attributes["fa%d" % r.randint(0, 2)] = self.attr_text()
        if r.random() < 0.3:
            e.attributes["{%s}q" % FOREIGN_NS] = self.text()
        if r.random() < 0.15:   # inside foreign content a well-known attribute name means nothing
            e.attributes[r.choice(["ID", "Format", "{urn:oasis:names:tc:SAML:2.0:assertion}Format", "Value"])] = self.attr_text()
        if r.random() < 0.7:
            e.text = self.elem_text()
        if depth > 0 and r.random() < 0.6:
            for _ in range(r.randint(1, 2)):
                kt = None
                if r.random() < 0.25:   # a KNOWN tag below a foreign element stays foreign content
                    cand = T.rows[r.randrange(len(T.rows))]
                    if cand["tag"] and cand["ns"]:
                        kt = self.name(cand["qtag"])
                e.children.append(self.foreign_elem(depth - 1, kt))
            if e.text is not None:
                self._c("foreign-elem:text+children" + (":ws-only" if not e.text.strip() else ""))
        return e

    # ---- look-alikes
    def add_lookalike_attrs(self, o, cid, mode, how_many):
        """mode 'together': the declared attribute is (made) set and the look-alike is added next to it;
        'alone': the declared attribute is unset (only attributes __init__ does not preset).
        how_many: 1 = one declared attribute with all its look-alikes, None = every declared attribute."""
        T, r = self.T, self.rng
        row = T.rows[cid]
        la = T.look_attrs[cid]
        if not la:
            return 0
        preset = {m for m, _v in row["defaults"]}
        member_of = {x: m for (x, m, _t, _q) in row["attrs"]}
        if how_many is None:
            chosen = list(la)
        else:
            # one declared attribute (for 'alone' one that __init__ does not preset, if there is one) and ALL its
            # look-alikes at once: own namespace, foreign namespace, xml namespace, unqualified
            ds = list(dict.fromkeys(t[0] for t in la))
            free = [d for d in ds if member_of[d] not in preset]
            d0 = r.choice(free if (mode == "alone" and free) else ds)
            chosen = [t for t in la if t[0] == d0]
            # ... and the own-namespace look-alike of EVERY declared attribute (a change that singles out one
            # attribute name of one class is met on every run)
            chosen += [t for t in la if t[1] == "own-ns" and t[0] != d0]
        n = 0
        for d, kind, q in chosen:
            mname = T.names[member_of[d]]
            m = mode
            if m == "alone" and member_of[d] in preset:
                m = "together"
            if m == "alone":
                setattr(o, mname, None)
            elif getattr(o, mname, None) is None:
                setattr(o, mname, self.attr_text())
            v = self.attr_text()
            if m == "together" and v == getattr(o, mname):
                v = v + "~"         # own values: a swap or an overwrite must show
            o.extension_attributes[T.names[q]] = v
            self._c("lookalike-attr:%s:%s" % (kind, m))
            n += 1
        return n

    def add_lookalike_child(self, o, cid, depth=2, n=1):
        """n unknown children whose tags look like n different known child keys"""
        T, r = self.T, self.rng
        lk = T.look_kids[cid]
        if not lk:
            return 0
        keys = list(dict.fromkeys(t[0] for t in lk))
        for d0 in r.sample(keys, min(n, len(keys))):
            d, kind, q = r.choice([t for t in lk if t[0] == d0])
            e = self.foreign_elem(depth, T.names[q])
            if r.random() < 0.5 and e.text is None:
                e.text = self.elem_text()
            o.extension_elements.append(e)
            self._c("lookalike-child:%s" % kind)
        return 1

    # ---- objects
    def obj(self, cid, depth=3, full=False, budget=None, root=True, foreign=0.35, look=None, look_all=False):
        """a generated instance of class `cid` (see schema_gen.Gen.obj); look = 'together' | 'alone' | None
        for the root, nested objects draw their own"""
        T, r = self.T, self.rng
        row, cls = T.rows[cid], T.classes[cid]
        if budget is None:
            budget = [45]
        budget[0] -= 1
        if cid in self.av:
            return self.av_obj(cid)
        o = cls()
        for (_x, m, _t, _req) in row["attrs"]:
            if full or r.random() < 0.5:
                setattr(o, self.name(m), self.attr_text())
        if r.random() < (0.7 if full else 0.4):
            o.text = self.elem_text() if r.random() < 0.95 else ""
        nkids = 0
        for (_k, m, ccid, islist) in row["children"]:
            if ccid is None:
                continue
            if ((cid, m) in self.skip_members and not root) or ccid in self.skip_classes:
                continue
            if depth <= 0 or (budget[0] <= 0 and not (full and root)):
                continue
            if full and root:
                n = r.randint(1, 3) if islist else 1
            else:
                n = r.choice([0, 0, 0, 1, 1, 2, 3]) if islist else r.choice([0, 0, 1])
            if n == 0:
                continue
            kids = [self.obj(ccid, depth - 1, False, budget, False, foreign) for _ in range(n)]
            name = self.name(m)
            if m in row["missing"]:
                continue
            setattr(o, name, kids if islist else kids[0])
            nkids += n
        if nkids and o.text is not None and not o.text.strip():
            self._c("known-elem:ws-text+children")
        if r.random() < (1.0 if (full and root) else foreign):
            for _ in range(r.randint(1, 2)):
                kt = None
                if r.random() < 0.25:
                    cand = T.rows[r.randrange(len(T.rows))]
                    q = self.name(cand["qtag"])
                    if cand["tag"] and cand["ns"] and T.intern[q] not in [c[0] for c in row["children"]]:
                        kt = q
                o.extension_elements.append(self.foreign_elem(3 if (full and root) else r.randint(1, 2), kt))
        if (full and root) or r.random() < (0.5 if root else 0.2):
            self.add_lookalike_child(o, cid, 2 if root else 1, 4 if (full and root) else 1)
        if r.random() < (1.0 if (full and root) else foreign):
            for _ in range(r.randint(1, 2)):
                k, v = self.foreign_attr()
                o.extension_attributes[k] = v
        if root:
            if look:
                self.add_lookalike_attrs(o, cid, look, None if look_all else 1)
        elif row["attrs"] and r.random() < 0.3:
            self.add_lookalike_attrs(o, cid, r.choice(["together", "alone"]), 1)
            self._c("lookalike-attr:nested")
        return o


# ------------------------------------------------------------------ documents
def pretty(rng, tree, gen):
    """the same document the way a pretty-printer / another toolkit writes it: tails everywhere below the
    root, white-space text in front of the first child, attributes in another order"""
    t = copy.deepcopy(tree)
    first = True
    for el in t.iter():
        if not first:
            el.tail = rng.choice(TAILS)
        first = False
        if len(el) and el.text is None and rng.random() < 0.6:
            el.text = rng.choice(WS)
        if len(el.attrib) > 1 and rng.random() < 0.7 and not any(k.startswith("xmlns") for k in el.attrib):
            items = list(el.attrib.items())
            if rng.random() < 0.5:
                items.reverse()
            else:
                rng.shuffle(items)
            el.attrib.clear()
            for k, v in items:
                el.attrib[k] = v
    return t


def with_lookalike_child(rng, T, gen, cid, tree, cap=8):
    """the document plus one unknown child per known child key (at most cap): same local name, other namespace;
    a copy of the real child when the document has one (its whole subtree must come back as extension element)"""
    lk = T.look_kids[cid]
    if not lk:
        return None
    t = copy.deepcopy(tree)
    # one look-alike for EVERY known child key (kind drawn), at most `cap`; up to 2 of them are copies of the real child
    by_key = {}
    for d, kind, q in lk:
        by_key.setdefault(d, []).append((d, kind, q))
    picks = [rng.choice(v) for v in by_key.values()]
    if len(picks) > cap:
        picks = rng.sample(picks, cap)
    copies = 0
    for d, kind, q in picks:
        real = [k for k in t if k.tag == T.names[d]]
        if real and copies < 2 and rng.random() < 0.7:
            copies += 1
            e = copy.deepcopy(rng.choice(real))
            e.tag = T.names[q]
            for x in e.iter():      # a literal xmlns:xs attribute (AttributeValue objects carry one) is no attribute in XML
                for k in [k for k in x.attrib if k.startswith("xmlns")]:
                    del x.attrib[k]
        else:
            e = gen.foreign_elem(2 if copies < 2 else 1, T.names[q]).transfer_to_element_tree()
        if e.text is None and rng.random() < 0.5:
            e.text = gen.elem_text()
        e.tail = rng.choice(TAILS)
        t.insert(rng.randint(0, len(t)), e)
        gen._c("doc:lookalike-child:%s" % kind)
    return t


def with_lookalike_attrs(rng, T, gen, cid, tree):
    """the document with look-alike attributes put IN FRONT of the declared ones (a parser that matched on the
    local name would let the later one win), declared ones present or removed"""
    la = T.look_attrs[cid]
    if not la:
        return None
    t = copy.deepcopy(tree)
    items = list(t.attrib.items())
    chosen = rng.sample(la, min(2, len(la)))
    t.attrib.clear()
    for d, kind, q in chosen:
        t.attrib[T.names[q]] = gen.attr_text() + "^"
        gen._c("doc:lookalike-attr:%s" % kind)
    preset = {T.names[x] for (x, m, _t, _r) in T.rows[cid]["attrs"] if m in {mm for mm, _v in T.rows[cid]["defaults"]}}
    drop = {T.names[d] for d, _k, _q in chosen if rng.random() < 0.5} - preset
    for k, v in items:
        if k not in drop and k not in t.attrib:
            t.attrib[k] = v
    return t


def et_to_dcoq(T, e):
    return "(D %d %s %s %s [%s])" % (T.n(e.tag), _pairs_coq(T, e.attrib.items()), _text_coq(e.text), _text_coq(e.tail),
                                     ";".join(et_to_dcoq(T, c) for c in e))


def et_to_dval(T, e):
    """mirror of Model.SchemaDoc.show_dtree"""
    return [T.n(e.tag), [[T.n(k), v] for k, v in e.attrib.items()], e.text, e.tail, [et_to_dval(T, c) for c in e]]


def doc_string(tree):
    """the document as text, for reports and replays (the root's tail is not part of it)"""
    t = copy.copy(tree)
    t.tail = None
    return ET.tostring(t, encoding="unicode")
