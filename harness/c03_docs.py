"""C03 documents: responses whose signed elements sit at every place the SP
verifies a signature (the Response, a plain Assertion, an Assertion inside an
EncryptedAssertion, an Assertion inside an EncryptedAssertion of an <Advice>),
each with its OWN Issuer (or none) and its own signing key, and stand-alone
signed protocol messages.  Real signatures / ciphertexts through the stand-in.

element spec  E = dict(issuer=<raw Issuer text | None (no element)>, key=<harness key | None (unsigned)>,
                       embed=<True: KeyInfo carries the signer's certificate | key name: that key's | None/False: none>,
                       advice=[E ...], id=...)
document      D = dict(resp=E (without advice), plain=[E], enc=[E])
"""
import xml.etree.ElementTree as ET

import env
import enc_tools
import pipeline
import resp as R
from enc_tools import SAML
from saml2_tophat import saml, samlp, sigver, class_name

ASSERTION = "%s:Assertion" % SAML


def E(issuer, key=None, embed=True, advice=(), id=None):
    return dict(issuer=issuer, key=key, embed=embed, advice=list(advice), id=id)


def _strip_decl(text):
    if text.startswith("<?xml"):
        text = text[text.index("?>") + 2:].lstrip()
    return text


def embedded_key(e):
    """name of the harness key whose certificate the element's KeyInfo carries (None: no KeyInfo certificate)"""
    emb = e.get("embed")
    if not emb or not e.get("key"):
        return None
    return e["key"] if emb is True else emb


def _sig_template(node_id, key, embed):
    emb = embedded_key(dict(key=key, embed=embed))
    return sigver.pre_signature_part(node_id, env.cert_b64(emb) if emb else None)


def render_assertion(e):
    """stand-alone XML text of one assertion element (signed with e['key'] if any; its advice holds
    one EncryptedAssertion per advice element, each encrypted for the SP)"""
    spec = pipeline.A(id=e["id"], issuer=e["issuer"])
    obj = pipeline._assertion_obj(spec, "Z")
    el = ET.fromstring(str(obj))
    if e["advice"]:
        adv = ET.Element("{%s}Advice" % SAML)
        for k in e["advice"]:
            adv.append(ET.fromstring(render_encrypted(k)))
        pos = 0
        for i, ch in enumerate(list(el)):
            if enc_tools.local(ch.tag) in ("Issuer", "Signature", "Subject", "Conditions"):
                pos = i + 1
        el.insert(pos, adv)
    if e["key"]:
        tmpl = ET.fromstring(str(_sig_template(e["id"], e["key"], e["embed"])))
        pos = 1 if (len(el) and enc_tools.local(el[0].tag) == "Issuer") else 0
        el.insert(pos, tmpl)
        text = ET.tostring(el, encoding="unicode")
        text = R.signer(e["key"]).sign_statement(text, node_name=ASSERTION, node_id=e["id"])
        return _strip_decl(text)
    return ET.tostring(el, encoding="unicode")


def render_encrypted(e, for_key="sp"):
    return '<saml:EncryptedAssertion xmlns:saml="%s">%s</saml:EncryptedAssertion>' % (
        SAML, enc_tools.enc_blob(render_assertion(e), for_key))


def number(doc):
    """give every element an id (document order); returns the doc"""
    n = [0]

    def go(e, prefix):
        n[0] += 1
        e["id"] = "%s-%d" % (prefix, n[0])
        for k in e.get("advice", []):
            go(k, "adv")
    doc["resp"]["id"] = "r-1"
    for e in doc["plain"]:
        go(e, "a")
    for e in doc["enc"]:
        go(e, "e")
    return doc


def render_doc(doc):
    number(doc)
    re_ = doc["resp"]
    r = samlp.Response(id=re_["id"], in_response_to="req-1", version="2.0", issue_instant=env.ts(env.NOW),
                       destination=env.SP_ACS_POST,
                       issuer=saml.Issuer(text=re_["issuer"]) if re_["issuer"] is not None else None,
                       status=R._status({"code": samlp.STATUS_SUCCESS, "sub": None, "message": None}))
    if re_["key"]:
        r.signature = _sig_template(re_["id"], re_["key"], re_["embed"])
    text = str(r)
    i = text.rindex("</")
    kids = "".join(render_assertion(e) for e in doc["plain"]) + "".join(render_encrypted(e) for e in doc["enc"])
    text = text[:i] + kids + text[i:]
    if re_["key"]:
        text = R.signer(re_["key"]).sign_statement(text, node_name=class_name(r), node_id=re_["id"])
    return text


# ---------------------------------------------------------------- stand-alone messages
def _name_id():
    return saml.NameID(text="subject-1", format=saml.NAMEID_FORMAT_TRANSIENT)


MESSAGES = {
    # kind -> (constructor of an otherwise valid message, SecurityContext method)
    "logout_request": lambda kw: samlp.LogoutRequest(name_id=_name_id(), **kw),
    "logout_response": lambda kw: samlp.LogoutResponse(in_response_to="req-1", status=R._status(
        {"code": samlp.STATUS_SUCCESS, "sub": None, "message": None}), **kw),
    "authn_request": lambda kw: samlp.AuthnRequest(assertion_consumer_service_url=env.SP_ACS_POST, **kw),
    "attribute_query": lambda kw: samlp.AttributeQuery(subject=saml.Subject(name_id=_name_id()), **kw),
    "artifact_response": lambda kw: samlp.ArtifactResponse(in_response_to="req-1", status=R._status(
        {"code": samlp.STATUS_SUCCESS, "sub": None, "message": None}), **kw),
    "manage_name_id_request": lambda kw: samlp.ManageNameIDRequest(name_id=_name_id(), terminate=samlp.Terminate(), **kw),
    "authn_query": lambda kw: samlp.AuthnQuery(subject=saml.Subject(name_id=_name_id()), **kw),
}


def render_message(kind, e):
    kw = dict(id="m-1", version="2.0", issue_instant=env.ts(env.NOW), destination="https://sp.example.org/slo/soap",
              issuer=saml.Issuer(text=e["issuer"]) if e["issuer"] is not None else None)
    m = MESSAGES[kind](kw)
    if e["key"]:
        m.signature = _sig_template("m-1", e["key"], e["embed"])
        return R.signer(e["key"]).sign_statement(str(m), node_name=class_name(m), node_id="m-1")
    return str(m)
