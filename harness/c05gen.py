"""C05 generators for the endpoint table quantified per binding and for the
hidden-confirmation shapes (Model/Endpoints.v on top of Model/Response.v).

A cell is a flat dict:
  layout   name of an assertion_consumer_service table (LAYOUTS)
  arrive   binding the response arrives over: post | redirect | artifact | soap
  dest     Destination: P R A U (the SP's urls) | foreign | near | absent
  pattern  valid_destination_regex: unset | matching | non-matching
  recip    Recipient of the tested confirmation: P R A U | entity | foreign
  conv     conv_info: none | entity | entity+addr | addr-only
  unsol    allow_unsolicited
  irt/scd  InResponseTo of response / of the tested confirmation: match | other-outstanding | unknown | absent
  confs    confirmation layout (CONF_LAYOUTS)
  delivery plain | encrypted | plain+encrypted | plain+2enc-first | plain+2enc-last | 2plain+enc
  outs     outstanding-requests variant (OUT_VARIANTS)
"""
import base64
import copy
import re

import env
import pipeline
from pipeline import A, R, SPCase
from core import Exn, cstr, clist
from env import NOW, SP_ID, SP_ACS_POST, SP_ACS_REDIRECT
from saml2_tophat import BINDING_HTTP_POST, BINDING_HTTP_REDIRECT, BINDING_HTTP_ARTIFACT, BINDING_SOAP, BINDING_PAOS
from saml2_tophat.saml import SCM_BEARER

URL = {"P": SP_ACS_POST, "R": SP_ACS_REDIRECT, "A": "https://sp.example.org/acs/artifact",
       "U": "https://sp.example.org/acs/any", "P2": "https://sp.example.org/acs/post2",
       "foreign": "https://evil.example.org/acs", "near": SP_ACS_POST + "/", "entity": SP_ID}
BIND = {"post": BINDING_HTTP_POST, "redirect": BINDING_HTTP_REDIRECT, "artifact": BINDING_HTTP_ARTIFACT,
        "soap": BINDING_SOAP, "paos": BINDING_PAOS}
BROWSER = ("post", "redirect", "artifact")

_P, _R, _A = (URL["P"], "post"), (URL["R"], "redirect"), (URL["A"], "artifact")
# entry: (url, binding-key) | bare url | ("odd", url, binding-key) = a triple in the configuration
LAYOUTS = {
    "-": [], "P": [_P], "R": [_R], "A": [_A], "PR": [_P, _R], "PA": [_P, _A], "RA": [_R, _A], "PRA": [_P, _R, _A],
    "U": [URL["U"]], "PU": [_P, URL["U"]], "RU": [_R, URL["U"]], "PAU": [_P, _A, URL["U"]],
    "PP2": [_P, (URL["P2"], "post")],
    "swap": [(URL["P"], "redirect"), (URL["R"], "post")],
    "dupP": [(URL["P"], "post"), (URL["P"], "artifact")],
    "odd": [("odd", URL["P"], "post")],
    "odd+R": [("odd", URL["P"], "post"), _R],
    "odd+U": [("odd", URL["P"], "post"), URL["U"]],
}
SMALL_LAYOUTS = ["-", "P", "R", "A", "PR", "PA", "RA", "PRA", "U", "PU"]
DESTS = ["P", "R", "A", "U", "foreign", "near", "absent"]      # P2 only in histories
RECIPS = ["P", "R", "A", "U", "entity", "foreign"]
PATTERNS = {"unset": None, "matching": r"^https://sp\.example\.org/acs/", "non-matching": r"^https://portal\.example\.org/"}
CONVS = {"none": None, "entity": {"entity_id": SP_ID}, "entity+addr": {"entity_id": SP_ID, "remote_addr": "192.0.2.7"},
         "addr-only": {"remote_addr": "192.0.2.7"}}
OUT_VARIANTS = {
    "distinct": {"req-1": "/came-from-1", "req-2": "/came-from-2"},
    "same-came-from": {"req-1": "/", "req-2": "/"},
    "three": {"req-0": "/a", "req-1": "/b", "req-2": "/a"},
    "empty-came-from": {"req-2": "", "req-1": ""},
}
IRT = {"match": "req-1", "other-outstanding": "req-2", "unknown": "req-zzz", "absent": None}
CONF_LAYOUTS = ["single", "nodata-first", "nodata-last", "match-then-scd", "scd-then-match"]
DELIVERIES = ["plain", "encrypted", "plain+encrypted"]
# several assertions (parse_assertion wants exactly one plain OR exactly one encrypted assertion): the tested
# assertion is the 2nd/3rd one, the others are well-formed and name the response's request
MULTI = ["plain+2enc-first", "plain+2enc-last", "2plain+enc"]

DEFAULT = dict(layout="PR", arrive="post", dest="absent", pattern="unset", recip="entity", conv="none", unsol=False,
               irt="match", scd="match", confs="single", delivery="plain", outs="distinct")


def cell(**kw):
    c = dict(DEFAULT)
    c.update(kw)
    return c


def table_conf(layout):
    """the value configured under endpoints / assertion_consumer_service"""
    out = []
    for e in LAYOUTS[layout]:
        if isinstance(e, str):
            out.append(e)
        elif e[0] == "odd":
            out.append((e[1], BIND[e[2]], 1))
        else:
            out.append((e[0], BIND[e[1]]))
    return out


def table_coq(layout):
    def one(e):
        if isinstance(e, str):
            return "Unspec %s" % cstr(e)
        if e[0] == "odd":
            return "Odd"
        return "EP %s %s" % (cstr(e[0]), cstr(BIND[e[1]]))
    return clist(LAYOUTS[layout], one)


def registered_for(layout, arrive, url):
    """the property's own reading: url is listed for that binding, or no entry carries the binding and
    url is listed without one (written from the statement, not from the code)"""
    entries = LAYOUTS[layout]
    with_binding = [e for e in entries if not isinstance(e, str) and e[0] != "odd" and e[1] == arrive]
    if with_binding:
        return any(e[0] == url for e in with_binding)
    return any(isinstance(e, str) and e == url for e in entries)


class SPCaseE(SPCase):
    """SPCase with an arbitrary ACS table and arriving binding; coq() yields a Model.Endpoints.ecfg"""

    def __init__(self, layout="PR", arrive="post", **kw):
        SPCase.__init__(self, binding="soap" if arrive == "soap" else "post", **kw)
        self.layout, self.arrive = layout, arrive

    def key(self):
        return ("E", self.layout) + SPCase.key(self)

    def spdict(self):
        spd = {"want_response_signed": self.wrs, "want_assertions_signed": self.was,
               "want_assertions_or_response_signed": self.waors, "allow_unsolicited": self.allow_unsolicited,
               "endpoints": {"assertion_consumer_service": table_conf(self.layout)}}
        if self.regex is not None:
            spd["valid_destination_regex"] = self.regex
        return {"sp": spd, "encryption_keypairs": [{"key_file": env.key(k2), "cert_file": env.cert(k2)} for k2 in self.enc_keys]}

    def fresh_sp(self):
        return env.make_sp(**self.spdict())

    def sp(self):
        k = self.key()
        if k not in SPCase._cache:
            SPCase._cache[k] = self.fresh_sp()
        return SPCase._cache[k]

    def binding_uri(self):
        return BIND[self.arrive]

    def return_addrs(self):
        return None      # not read by Model.Endpoints.cfg_of

    def coq(self, now, destination=None):
        return "{| base := %s; acs_table := %s; arriving := %s |}" % (
            SPCase.coq(self, now, destination), table_coq(self.layout), cstr(BIND[self.arrive]))


def build(c):
    """cell -> (SPCaseE, response spec)"""
    outs = OUT_VARIANTS[c["outs"]]
    r_irt = IRT[c["irt"]]
    dest = None if c["dest"] == "absent" else URL[c["dest"]]
    conf = {"method": SCM_BEARER, "irt": IRT[c["scd"]], "recipient": URL[c["recip"]], "nooa": NOW + 300, "nb": None,
            "address": None, "data": True}
    match = dict(conf, irt=r_irt)
    nodata = {"method": SCM_BEARER, "data": False}
    confs = {"single": [conf], "nodata-first": [nodata, conf], "nodata-last": [conf, nodata],
             "match-then-scd": [match, conf], "scd-then-match": [conf, match]}[c["confs"]]
    a = A(confirmations=confs)
    if c["delivery"] == "plain":
        spec = R(irt=r_irt, destination=dest, assertions=[a])
    elif c["delivery"] == "encrypted":
        spec = R(irt=r_irt, destination=dest, assertions=[], encrypted=[a])
    elif c["delivery"] == "plain+encrypted":
        spec = R(irt=r_irt, destination=dest, assertions=[A(confirmations=[match])],
                 encrypted=[dict(a, id="a-2", name_id="subject-2")])
    else:
        good = lambda n: A(confirmations=[match], id="a-%d" % n, name_id="subject-%d" % n)
        if c["delivery"] == "plain+2enc-first":
            spec = R(irt=r_irt, destination=dest, assertions=[good(1)], encrypted=[dict(a, id="a-2", name_id="subject-2"), good(3)])
        elif c["delivery"] == "plain+2enc-last":
            spec = R(irt=r_irt, destination=dest, assertions=[good(1)], encrypted=[good(2), dict(a, id="a-3", name_id="subject-3")])
        else:
            assert c["delivery"] == "2plain+enc", c["delivery"]
            spec = R(irt=r_irt, destination=dest, assertions=[good(1), dict(a, id="a-2", name_id="subject-2")], encrypted=[good(3)])
    case = SPCaseE(layout=c["layout"], arrive=c["arrive"], allow_unsolicited=c["unsol"], regex=PATTERNS[c["pattern"]],
                   outstanding=outs, conv_info=CONVS[c["conv"]])
    return case, spec


def wire_of(arrive, xml):
    if arrive in ("post", "artifact"):
        return base64.b64encode(xml.encode("utf-8")).decode("ascii")
    if arrive == "redirect":
        from saml2_tophat.s_utils import deflate_and_base64_encode
        return deflate_and_base64_encode(xml)
    return pipeline.SOAP_ENV % (xml[xml.index("?>") + 2:] if xml.startswith("<?xml") else xml)


def call_sp(sp, case, xml, ids):
    """one parse_authn_request_response call on the given (possibly long-lived) SP object"""
    try:
        r = sp.parse_authn_request_response(wire_of(case.arrive, xml), case.binding_uri(), copy.copy(case.outstanding),
                                            conv_info=case.conv_info)
    except BaseException as e:  # noqa
        if isinstance(e, (KeyboardInterrupt, SystemExit)):
            raise
        return Exn(type(e).__name__)
    if r is None:
        return None
    nooa = r.session_not_on_or_after if r.session_not_on_or_after > 0 else r.not_on_or_after
    if r.assertion is not None:
        nooa = r.session_info()["not_on_or_after"]
    return [[ids.get(x.id, 0) for x in r.assertions], r.name_id.text if r.name_id is not None else None, r.came_from,
            int(nooa), r.in_response_to]


def verdict(got):
    return got if isinstance(got, list) else Exn("rejected")


# ------------------------------------------------------------------ blocks
def block_destination(quick):
    """layout x arriving binding x Destination x pattern — whole (recipient = entity id, conv info with entity id)"""
    out = []
    for lay in LAYOUTS:
        for arr in BROWSER:
            for d in DESTS:
                for p in PATTERNS:
                    out.append(cell(kind="D", layout=lay, arrive=arr, dest=d, pattern=p, conv="entity"))
    for lay in ("-", "P", "U", "PR"):
        for d in ("P", "foreign", "absent"):
            for p in ("unset", "non-matching"):
                out.append(cell(kind="D", layout=lay, arrive="soap", dest=d, pattern=p, conv="entity", irt="unknown", scd="absent"))
    return out


def block_recipient(quick):
    """layout x arriving binding x Recipient x conv info x delivery — whole in the thorough tier; quick: whole for the
    small layouts, plain delivery only for the others"""
    out = []
    for lay in LAYOUTS:
        for arr in BROWSER:
            for rc in RECIPS:
                for cv in ("none", "entity", "addr-only"):
                    for dl in ("plain", "encrypted"):
                        if quick and dl == "encrypted" and (lay not in SMALL_LAYOUTS or cv == "none"):
                            continue
                        out.append(cell(kind="R", layout=lay, arrive=arr, recip=rc, conv=cv, delivery=dl))
    return out


def block_solicited(quick):
    """irt x scd x allow_unsolicited x confirmation layout x delivery x outstanding variant — whole"""
    out = []
    for o in OUT_VARIANTS:
        for i in IRT:
            for s in IRT:
                for u in (False, True):
                    for cl in CONF_LAYOUTS:
                        for dl in DELIVERIES:
                            if quick and o in ("three", "empty-came-from") and (u or cl == "nodata-last"):
                                continue
                            out.append(cell(kind="S", irt=i, scd=s, unsol=u, confs=cl, delivery=dl, outs=o,
                                            arrive="redirect" if (len(out) % 3 == 2) else "post", recip="entity"))
                        for dl in MULTI:
                            if quick and (u or o in ("three", "empty-came-from") or cl in ("nodata-last", "match-then-scd")):
                                continue
                            out.append(cell(kind="S", irt=i, scd=s, unsol=u, confs=cl, delivery=dl, outs=o, recip="entity"))
    return out


def random_cell(rng, kind="X"):
    return cell(kind=kind, layout=rng.choice(list(LAYOUTS)), arrive=rng.choice(BROWSER + ("post", "redirect", "soap")),
                dest=rng.choice(DESTS), pattern=rng.choice(list(PATTERNS) + ["unset"]), recip=rng.choice(RECIPS),
                conv=rng.choice(list(CONVS)), unsol=rng.random() < 0.3,
                irt=rng.choice(list(IRT) + ["match", "match"]), scd=rng.choice(list(IRT) + ["match", "match"]),
                confs=rng.choice(CONF_LAYOUTS + ["single"]), delivery=rng.choice(DELIVERIES + MULTI + ["plain", "plain"]),
                outs=rng.choice(list(OUT_VARIANTS)))


def history(rng, n):
    """one fresh SP object (static part fixed) and n calls on it; the first two calls go over different bindings
    with a Destination registered for one of them"""
    lay = rng.choice([k for k in LAYOUTS if k != "-"])
    unsol = rng.random() < 0.3
    pattern = rng.choice(["unset", "unset", "unset", "unset", "matching", "non-matching"])
    urls = [e if isinstance(e, str) else (e[1] if e[0] == "odd" else e[0]) for e in LAYOUTS[lay]]
    listed = [k for k in ("P", "R", "A", "U", "P2") if URL[k] in urls]
    calls = []
    for i in range(n):
        c = random_cell(rng, "H")
        c.update(layout=lay, unsol=unsol, pattern=pattern)
        if i < n - 2:
            # well-formed but for the addressing: a url of the SP's own table as Destination / Recipient, any browser binding
            c.update(arrive=rng.choice(BROWSER), dest=rng.choice(listed + ["absent"]), irt="match", scd=rng.choice(["match", "absent"]),
                     confs="single", delivery="plain", recip=rng.choice(["entity", "entity"] + listed), conv=rng.choice(["none", "entity"]))
        calls.append(c)
    return calls
