"""C02 helpers: messages that share identifiers / signature values with a genuine one
(tampered copies, re-digested copies, other messages under a seen ID), clients built
from every configuration class / section layout, and long-lived sessions (one client,
or several clients on ONE SecurityContext) that are walked step by step and described
by a JSON-able script (what ./check --replay re-runs)."""
import copy
import re
import zlib

import env
import pipeline
import resp
from pipeline import A, R, SPCase
from core import Exn, cstr, cbool, clist
from env import NOW
from saml2_tophat import saml, samlp, sigver, class_name

OPT_NAMES = ("want_response_signed", "want_assertions_signed", "want_assertions_or_response_signed")
DEFAULTS = (True, False, False)


# ---------------------------------------------------------------- text surgery on signed XML
def _sig_span(xml, node_id):
    """span of the <Signature> element whose Reference points at #node_id"""
    marker = 'URI="#%s"' % node_id
    i = xml.index(marker)
    m = None
    for m in re.finditer(r"<((?:\w+:)?)Signature[ >]", xml[:i]):
        pass
    start, prefix = m.start(), m.group(1)
    close = "</%sSignature>" % prefix
    return start, xml.index(close, i) + len(close)


def _sigvalue_span(xml, node_id):
    s, e = _sig_span(xml, node_id)
    m = re.search(r"SignatureValue[^>]*>([^<]*)<", xml[s:e])
    return s + m.start(1), s + m.end(1)


def sig_from(xml, node_id, donor):
    """replace the whole Signature element of node_id by the one the donor document has for that ID"""
    s, e = _sig_span(xml, node_id)
    ds, de = _sig_span(donor, node_id)
    return xml[:s] + donor[ds:de] + xml[e:]


def sigvalue_from(xml, node_id, donor):
    s, e = _sigvalue_span(xml, node_id)
    ds, de = _sigvalue_span(donor, node_id)
    return xml[:s] + donor[ds:de] + xml[e:]


def _after(text, node_id, ops):
    for op in ops or ():
        if op[0] == "edit":
            assert op[1] in text, op
            text = text.replace(op[1], op[2])
        elif op[0] == "sig_from":
            text = sig_from(text, node_id, op[1])
        elif op[0] == "sigvalue_from":
            text = sigvalue_from(text, node_id, op[1])
        else:
            raise ValueError(op)
    return text


def build(spec):
    """pipeline.build_xml with hooks: element['after'] = operations applied right after that element was signed
    (assertions: before encryption / before the response is signed).  Returns (final text, text before encryption)."""
    env.tool_inprocess(True)
    sp = spec.get("spelling", "Z")
    plain = [(a, pipeline._assertion_obj(a, sp)) for a in spec["assertions"]]
    enc = [(a, pipeline._assertion_obj(a, sp)) for a in spec.get("encrypted", [])]
    r = samlp.Response(id=spec["id"], in_response_to=spec.get("irt"), version=spec["version"],
                       issue_instant=pipeline.spell(spec["issue_instant"], sp), destination=spec.get("destination"),
                       issuer=saml.Issuer(text=spec["issuer"]) if spec.get("issuer") is not None else None,
                       status=resp._status(spec.get("status")), assertion=[o for _, o in plain])
    for a, o in plain + enc:
        if a.get("sig"):
            o.signature = sigver.pre_signature_part(o.id, env.cert_b64("idp"))
    if enc:
        r.encrypted_assertion = []
        for a, o in enc:
            ea = saml.EncryptedAssertion()
            ea.add_extension_element(o)
            r.encrypted_assertion.append(ea)
    if spec.get("sig"):
        r.signature = sigver.pre_signature_part(r.id, env.cert_b64("idp"))
    text = str(r)
    for a, o in plain + enc:
        if a.get("sig"):
            text = pipeline._sign(text, class_name(o), o.id, a["sig"])
        text = _after(text, o.id, a.get("after"))
    before_enc = text
    for a, o in enc:
        xpath = '/*[local-name()="Response"]/*[local-name()="EncryptedAssertion"]/*[local-name()="Assertion"]'
        text = resp.signer("idp").crypto.encrypt_assertion(text, env.cert(a.get("enc_for", "sp")), sigver.pre_encryption_part(), node_xpath=xpath)
    if spec.get("sig"):
        text = pipeline._sign(text, class_name(r), r.id, spec["sig"])
    text = _after(text, r.id, spec.get("after"))
    return text, before_enc


# ---------------------------------------------------------------- message pool
KINDS = ["genuine", "tamper-nameid", "tamper-attr", "redigest", "same-id-unsigned", "same-id-resigned",
         "corrupt-R", "corrupt-A", "wrongkey-R", "wrongkey-A", "fresh-id"]


def kinds_for(rs, as_):
    out = []
    for k in KINDS:
        if k.endswith("-R") and not rs:
            continue
        if k.endswith("-A") and not as_:
            continue
        out.append(k)
    return out


class Msg(object):
    """one wire message + what the harness knows about it (effective signature states, Coq term)"""

    def __init__(self, key, xml, eff):
        self.key, self.xml, self.eff = key, xml, eff
        self.rsig, self.asig = eff.get("sig"), (eff["assertions"] + eff["encrypted"])[0].get("sig")
        self.coq, self.ids = pipeline.response_coq(eff)
        vals = [zlib.crc32(v.encode()) for v in re.findall(r"<(?:\w+:)?SignatureValue[^>]*>([^<]*)<", xml)]
        self.wire = "{| w_rid := %s; w_sigvals := %s |}" % (cstr(eff["id"]), clist(vals, lambda v: "%d%%N" % v))


_pool = {}
IDENT_ATTRS = [["Anna"], ["Björn", "<b>&"], ["Chloé"], ["D", "E"]]


def message(shape, rs, as_, ident, kind):
    """shape: plain|encrypted; rs/as_: is the response / the assertion signed in the genuine message;
    ident: which generated identity; kind: see KINDS.  Messages of one (shape, rs, as_, ident) group — and of
    all groups with the same ident... in fact ALL groups — share the IDs r-1 / a-1 (fresh-id: r-2 / a-2)."""
    key = (shape, bool(rs), bool(as_), ident, kind)
    if key in _pool:
        return _pool[key]
    nid, nid2 = "subject-%d" % ident, "subjecT-%d" % ident      # same length: one character differs
    val = IDENT_ATTRS[ident % len(IDENT_ATTRS)]
    attrs, attrs2 = {"urn:oid:2.5.4.42": val}, {"urn:oid:2.5.4.42": ["Mallory"]}
    R_, A_ = ("valid" if rs else None), ("valid" if as_ else None)

    def spec_of(name_id, at, rsig, asig, a_after=(), r_after=(), rid="r-1", aid="a-1"):
        a = A(id=aid, sig=asig, name_id=name_id, attributes=at)
        a["after"] = list(a_after)
        s = R(id=rid, sig=rsig, assertions=[a]) if shape == "plain" else R(id=rid, sig=rsig, assertions=[], encrypted=[a])
        s["after"] = list(r_after)
        return s

    def eff_of(name_id, rsig, asig, rid="r-1", aid="a-1"):
        return spec_of(name_id, attrs, rsig, asig, rid=rid, aid=aid)

    bad = lambda present: "corrupt" if present else None  # noqa: E731  (any non-"valid" truthy value: check fails)
    if kind != "genuine":
        g = message(shape, rs, as_, ident, "genuine")
    if kind == "genuine":
        xml, pre = build(spec_of(nid, attrs, R_, A_))
        m = Msg(key, xml, eff_of(nid, R_, A_))
        m.pre = pre
    elif kind in ("tamper-nameid", "tamper-attr"):
        # the genuine message with content edited; every Signature element is the genuine one, untouched
        edit = ("edit", ">%s<" % nid, ">%s<" % nid2) if kind == "tamper-nameid" else ("edit", ">%s<" % val[0], ">Mallory<")
        if shape == "plain":
            xml = _after(g.xml, None, [edit])
        else:
            xml, _ = build(spec_of(nid, attrs, R_, A_, a_after=[edit], r_after=[("sig_from", g.xml)] if rs else []))
        m = Msg(key, xml, eff_of(nid2 if kind == "tamper-nameid" else nid, bad(rs), bad(as_)))
    elif kind == "redigest":
        # other content, digests recomputed over it, but the SignatureValues are the genuine ones
        xml, _ = build(spec_of(nid2, attrs2, R_, A_, a_after=[("sigvalue_from", g.pre)] if as_ else [],
                               r_after=[("sigvalue_from", g.xml)] if rs else []))
        m = Msg(key, xml, eff_of(nid2, bad(rs), bad(as_)))
    elif kind == "same-id-unsigned":
        xml, _ = build(spec_of(nid2, attrs2, None, None))
        m = Msg(key, xml, eff_of(nid2, None, None))
    elif kind == "same-id-resigned":
        xml, _ = build(spec_of(nid2, attrs2, R_, A_))
        m = Msg(key, xml, eff_of(nid2, R_, A_))
    elif kind in ("corrupt-R", "wrongkey-R"):
        xml, _ = build(spec_of(nid, attrs, kind.split("-")[0], A_))
        m = Msg(key, xml, eff_of(nid, "corrupt", A_))
    elif kind in ("corrupt-A", "wrongkey-A"):
        xml, _ = build(spec_of(nid, attrs, R_, kind.split("-")[0]))
        m = Msg(key, xml, eff_of(nid, R_, "corrupt"))
    elif kind == "fresh-id":
        xml, _ = build(spec_of(nid, attrs, R_, A_, rid="r-2", aid="a-2"))
        m = Msg(key, xml, eff_of(nid, R_, A_, rid="r-2", aid="a-2"))
    else:
        raise ValueError(kind)
    _pool[key] = m
    return m


def documented(opts, rsig, asig):
    """the documented rule, written independently of model and code (one assertion)"""
    wrs, was, waors = opts
    present_r, present_a = rsig is not None, asig is not None
    valid = rsig in (None, "valid") and asig in (None, "valid")
    return valid and (not wrs or present_r) and (not was or present_a) and (not waors or present_r or present_a)


# ---------------------------------------------------------------- clients from every configuration class
def conf_dict(section, roles=("sp",)):
    """section: the explicitly given options (absent ones are left to the defaults)"""
    from saml2_tophat.config import IdPConfig
    conf = env.sp_conf()
    for k in ("want_response_signed", "want_assertions_signed"):
        conf["service"]["sp"].pop(k, None)
    conf["service"]["sp"].update(section)
    # the same configuration also serves other roles; their sections carry the OPPOSITE values as decoys
    # (not options of those roles: the library never stores them).  aa / idp are loaded before sp, pdp / aq after it
    from saml2_tophat import BINDING_SOAP
    decoy = dict((n, not v) for n, v in zip(OPT_NAMES, resolved(section)))
    other = {"idp": lambda: copy.deepcopy(env.idp_conf()["service"]["idp"]),
             "aa": lambda: {"endpoints": {"attribute_service": [("https://sp.example.org/aa", BINDING_SOAP)]}},
             "pdp": lambda: {"endpoints": {"authz_service": [("https://sp.example.org/pdp", BINDING_SOAP)]}},
             "aq": lambda: {"endpoints": {"authn_query_service": [("https://sp.example.org/aq", BINDING_SOAP)]}}}
    for role in roles:
        if role != "sp":
            conf["service"][role] = dict(other[role](), **decoy)
    conf["metadata"] = {"inline": [env.cached_md("idp", env.idp_conf(), IdPConfig)]}
    return conf


def make_client(cls, section, roles=("sp",)):
    from saml2_tophat.client import Saml2Client
    from saml2_tophat import config as cfgmod
    conf = conf_dict(section, roles)
    if cls == "config_factory":
        cnf = cfgmod.config_factory("sp", conf)
    else:
        cnf = getattr(cfgmod, cls)().load(copy.deepcopy(conf))
    return Saml2Client(config=cnf)


DEF_CONTEXT = {"SPConfig": "sp", "Config": "", "IdPConfig": "idp", "config_factory": "sp"}


def _cv(v):
    if v is None:
        return "CNone"
    if isinstance(v, bool):
        return "(CBool %s)" % cbool(v)
    return "(CStr %s)" % cstr(v)


def client_coq(cls, section, roles=("sp",)):
    conf = conf_dict(section, roles)
    service = []
    for typ in conf["service"]:
        sec = [(k, v) for k, v in conf["service"][typ].items() if k in OPT_NAMES]
        service.append("(%s, %s)" % (cstr(typ), clist(sec, lambda kv: "(%s, %s)" % (cstr(kv[0]), _cv(kv[1])))))
    return "(%s, [%s])" % (cstr(DEF_CONTEXT[cls]), "; ".join(service))


def resolved(section):
    """the documented meaning of a section: explicit value (booleans, or the strings true/false), else the default"""
    out = []
    for name, d in zip(OPT_NAMES, DEFAULTS):
        v = section.get(name)
        out.append(d if v is None else (v if isinstance(v, bool) else v == "true"))
    return tuple(out)


# ---------------------------------------------------------------- sessions
class Session(object):
    """a long-lived client (mode 'one-client'), or eight clients — one per option setting — working on ONE
    SecurityContext object (mode 'shared-sec').  SetOpts = assigning client.want_* (one-client) / switching
    to the client configured with those options (shared-sec)."""

    def __init__(self, cls="SPConfig", section=None, roles=("sp",), mode="one-client"):
        self.cls, self.section, self.roles, self.mode = cls, dict(section or {}), tuple(roles), mode
        self.opts = resolved(self.section)
        self.steps = []
        if mode == "shared-sec":
            self.clients = {}
            import itertools
            for o in itertools.product([False, True], repeat=3):
                self.clients[o] = make_client(cls, dict(zip(OPT_NAMES, o)), roles)
            shared = self.clients[(False, False, False)].sec
            for c in self.clients.values():
                c.sec = shared
            self.client = self.clients[self.opts]
        else:
            self.client = make_client(cls, self.section, roles)
        self.case = SPCase()
        self.case.sp = lambda: self.client

    def script(self):
        return dict(cls=self.cls, section=self.section, roles=list(self.roles), mode=self.mode, steps=list(self.steps))

    def set(self, opts):
        opts = tuple(bool(x) for x in opts)
        self.steps.append({"set": list(opts)})
        self.opts = opts
        if self.mode == "shared-sec":
            self.client = self.clients[opts]
        else:
            for n, v in zip(OPT_NAMES, opts):
                setattr(self.client, n, v)

    def parse(self, key):
        m = message(*key)
        self.steps.append({"msg": list(key)})
        got = pipeline.run_impl(self.case, m.xml, m.ids)
        return m, got

    def call_coq(self):
        return self.case.coq(NOW, env.SP_ACS_POST)

    def op_coq(self, step):
        if "set" in step:
            return "SetOpts {| o_wrs := %s; o_was := %s; o_waors := %s |}" % tuple(cbool(b) for b in step["set"])
        m = message(*step["msg"])
        return "Parse %s %s %s" % (m.wire, self.case.coq(NOW, m.eff.get("destination")), m.coq)

    def client_coq(self):
        return client_coq(self.cls, self.section, self.roles)


def observable(got):
    return got if isinstance(got, list) or got is None else Exn("rejected")


def replay_script(script, out=print):
    """re-run a script on a new long-lived session; prints every step with the documented verdict"""
    env.tool_inprocess(True)
    bad = 0
    with env.Clock(NOW):
        s = Session(script["cls"], script["section"], script["roles"], script["mode"])
        out("session: class=%s roles=%s section=%s mode=%s -> options %s" % (s.cls, s.roles, s.section, s.mode, s.opts))
        for st in script["steps"]:
            if "set" in st:
                s.set(st["set"])
                out("  set options (wrs, was, waors) = %s" % (s.opts,))
                continue
            m, got = s.parse(tuple(st["msg"]))
            want = documented(s.opts, m.rsig, m.asig)
            ok = isinstance(got, list) == want
            bad += not ok
            out("  %-60s -> %-40s documented: %s%s" % (st["msg"], got if not isinstance(got, list) else "accepted " + str(got[1]),
                                                      "accept" if want else "refuse", "" if ok else "   <== VIOLATION"))
    return bad
