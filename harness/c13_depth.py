"""C13 - DEPTH and repeated SIBLINGS.

The theorems of Props/C13.v hold for instance trees of any depth; this module makes the run reach deep trees
on the real code:

  * the RECURSIVE classes are read from the regenerated tables (a class reachable from itself through
    c_children); for every (recursive class, child member that leads back to it) the shortest cycle of child
    edges is walked N times (N = number of child edges between the root and the innermost instance);
  * at the innermost level ONE violation of each kind the innermost class offers (required attribute missing /
    empty, bad typed value, junk-carrying typed value, cardinality below / above) and the valid twin;
  * through validate.valid_instance(root), root.verify(), and - as XML text - through the entry points
    (Saml2Client.parse_authn_request_response with a StatusCode chain / an Assertion > Advice > Assertion chain,
    InMemoryMetaData / MetadataStore load of nested EntitiesDescriptors);
  * the model sees the same trees up to depth 64: they are built INSIDE Coq by Model.ValidateDeep.deep from a
    depth number and one template function per child edge (the literal of the parent's minimal instance with a
    hole), so the term handed to coqc stays small; above 64 the implementation-level oracle stands alone.

A violation at any depth must be refused; RecursionError counts as refused.  valid_instance needs three Python
frames per child edge (valid_instance > _valid_instance > verify, one more for the AssertionType_ override), so the
default recursion limit of 1000 allows about 320 edges: valid twins are demanded to be ACCEPTED up to
VALID_LIMIT = 200 edges only.
"""
import sys

import schema_gen
from core import Exn, call
from schema_gen import obj_to_coq

MODEL_DEPTHS = (8, 31, 32, 33, 64)
ORACLE_DEPTHS = (200,)
OVER_DEPTHS_QUICK = (400, 900)         # beyond the recursion limit: only `refused` is demanded (cheap: oracle alone)
OVER_DEPTHS_THOROUGH = (400, 900)
VALID_LIMIT = 200
ENTRY_VALID_LIMIT = 200               # probed: parsing, validating and the later traversals of a 300-level chain fit the default limit
WIDTHS = (2, 33, 64, 200)
KINDS = ("required-missing", "required-empty", "attr-invalid", "attr-unanchored", "text-invalid", "card-below-min", "card-above-max")
HOLE = "@@HOLE@@"


# ---------------------------------------------------------------- the recursive constructs of the tables
def graph(T):
    g = {}
    for r in T.rows:
        g[r["id"]] = [] if r["over"] else [(m, c, l) for (_k, m, c, l) in r["children"] if c is not None and m not in r["missing"]]
    return g


def _reach(g, s):
    seen, st = set(), [c for _m, c, _l in g[s]]
    while st:
        x = st.pop()
        if x not in seen:
            seen.add(x)
            st += [c for _m, c, _l in g[x]]
    return seen


def _shortest(g, a, b):
    """child edges [(parent, member, islist, child)] of a shortest path a -> b ([] when a == b)"""
    if a == b:
        return []
    prev, todo = {a: None}, [a]
    while todo:
        nxt = []
        for x in todo:
            for (m, c, l) in g[x]:
                if c not in prev:
                    prev[c] = (x, m, l)
                    nxt.append(c)
        todo = nxt
        if b in prev:
            break
    path, x = [], b
    while prev[x] is not None:
        p, m, l = prev[x]
        path.append((p, m, l, x))
        x = p
    return path[::-1]


def cycles(T):
    """(recursive class ids, [cycle]) - one cycle per (recursive class, child member that leads back to it)"""
    g = graph(T)
    reach = {c: _reach(g, c) for c in g}
    rec = [c for c in sorted(g) if c in reach[c]]
    out = []
    for c in rec:
        for (m, c2, l) in g[c]:
            if c2 == c or c in reach[c2]:
                out.append([(c, m, l, c2)] + _shortest(g, c2, c))
    return rec, out


def path_name(T, path):
    return ">".join("%s.%s" % (T.qname[p], T.names[m]) for (p, m, _l, _c) in path)


# ---------------------------------------------------------------- building
def _put(B, p, pid, m, islist, cid, cur):
    """cur under member m of p; in a list AFTER an equal-looking minimal sibling where the bounds allow two"""
    T = B.T
    prow = T.rows[pid]
    card = next(((c[1], c[2]) for c in prow["card"] if c[0] == m), (None, None))
    mn, mx = card[0] or 0, card[1]
    if islist:
        n = max(mn, 2)
        if mx is not None and n > mx:
            n = max(mx, 1)
        setattr(p, T.names[m], [B.minimal(cid, 4) for _ in range(n - 1)] + [cur])
    else:
        setattr(p, T.names[m], cur)
    return p


def spine(B, path, n, leaf):
    """(root, innermost parent edge) of the chain: n child edges along the cycle, leaf innermost"""
    cur, inner = leaf, None
    L = len(path)
    for j in range(n - 1, -1, -1):
        pid, m, islist, cid = path[j % L]
        p = _put(B, B.minimal(pid), pid, m, islist, cid, cur)
        if inner is None:
            inner = (p, m, islist)
        cur = p
    return cur, inner


def swap_leaf(B, inner, leaf):
    p, m, islist = inner
    name = B.T.names[m]
    if islist:
        getattr(p, name)[-1] = leaf
    else:
        setattr(p, name, leaf)


def leaf_class(path, n):
    return path[(n - 1) % len(path)][3]


def step_coq(T, p, hole):
    """`step_of c attrs text before m after xattrs xelems` (Model/ValidateDeep.v): the literal of p as obj_to_coq prints it,
    split at the child `hole` - the form C13_step_of_is_child_step / C13_rejects_at_any_depth speak about"""
    cid = T.cid[type(p)]
    row = T.rows[cid]
    attrs = ["(%d,%s)" % (m, schema_gen.cstr(getattr(p, T.names[m]))) for (_x, m, _t, _r) in row["attrs"] if getattr(p, T.names[m], None) is not None]
    before, after, hit = [], [], None
    for m, l in schema_gen._kids(T, p, row):
        for k in l:
            if k is hole:
                assert hit is None
                hit = m
            else:
                (before if hit is None else after).append("(%d,%s)" % (m, obj_to_coq(T, k)))
    assert hit is not None
    return "(step_of %d [%s] %s [%s] %d [%s] %s [%s])" % (cid, ";".join(attrs), schema_gen._text_coq(p.text), ";".join(before), hit, ";".join(after),
                                                        schema_gen._pairs_coq(T, p.extension_attributes.items()), ";".join(schema_gen.ext_to_coq(T, e) for e in p.extension_elements))


def templates(B, path):
    """one Coq step per child edge: the parent as _put builds it, with a hole for the chain"""
    T = B.T
    out = []
    for (pid, m, islist, cid) in path:
        hole = T.classes[cid]()
        out.append(step_coq(T, _put(B, B.minimal(pid), pid, m, islist, cid, hole), hole))
    return "[" + ";".join(out) + "]"


def leaves(T, per_class, cid):
    """[(index in per_class[cid], kind, member)]: the first violated variant of every kind; a class without a
    constraint of its own: its variant with the violation further down"""
    out, seen = [], set()
    for idx, (kind, member, violated, _o) in enumerate(per_class[cid]):
        if violated is not True:
            continue
        k = "deep" if kind.startswith("deep:") else kind
        if (k in KINDS or k == "deep") and k not in seen:
            seen.add(k)
            out.append((idx, kind, member))
    return out


def _oc(r):
    return r if isinstance(r, Exn) else True


# ---------------------------------------------------------------- the unit: chains
def check_chains(ctx, T, B, per_class, obs, emit):
    """emit(coq, claim, o, show) registers a model case; returns what this unit did (for the evidence)"""
    from saml2_tophat.validate import valid_instance
    rec, cyc = cycles(T)
    info = {"recursive_classes": [T.qname[c] for c in rec], "cycles": [path_name(T, p) for p in cyc], "recursion_limit": sys.getrecursionlimit()}
    over = OVER_DEPTHS_QUICK if ctx.quick else OVER_DEPTHS_THOROUGH
    for path in cyc:
        pname = path_name(T, path)
        tmpl = templates(B, path)
        for n in MODEL_DEPTHS + ORACLE_DEPTHS + over:
            lc = leaf_class(path, n)
            valid_leaf = B.minimal(lc)
            root, inner = spine(B, path, n, valid_leaf)
            todo = [(0, "base", "-", False, valid_leaf)]
            for idx, kind, member in leaves(T, per_class, lc):
                todo.append((idx, kind, member, True, per_class[lc][idx][3]))
            for idx, kind, member, violated, leaf in todo:
                if not violated and n > VALID_LIMIT:
                    continue
                swap_leaf(B, inner, leaf)
                viol = "%s:%s.%s" % (kind.split(":")[0], T.qname[lc], member)
                rep = {"unit": "depth", "path": [[T.qname[p], T.names[m]] for (p, m, _l, _c) in path], "depth": n, "leaf_class": T.qname[lc], "leaf_idx": idx}
                r1, r2 = _oc(call(valid_instance, root)), _oc(call(root.verify))
                ctx.count("depth=%d:%s" % (n, "accepted" if r1 is True else r1.name))
                for fn, r in (("valid_instance", r1), ("verify", r2)):
                    if violated:
                        ctx.nontriv(("depth", n, pname, viol, fn))
                        if r is True:
                            ctx.oracle_fail("not-rejected:depth=%d:%s:%s" % (n, pname, viol),
                                            "%s of %s, %d child edges below the root along %s, is accepted by %s" % (kind, T.qname[lc], n, pname, fn),
                                            dict(rep, call=fn))
                    elif r is not True:
                        ctx.oracle_fail("valid-rejected:depth=%d:%s:%s" % (n, pname, r.name),
                                        "a chain of %d child edges along %s in which every instance satisfies its constraints: %s raises %s" % (n, pname, fn, r.name),
                                        dict(rep, call=fn))
                if n in MODEL_DEPTHS:
                    coq = "(deep %s %d%%nat %s)" % (tmpl, n, obj_to_coq(T, leaf))
                    emit(coq, 1 if violated else 0, [obs(r1), obs(r2)],
                         dict(cls=T.qname[path[0][0]], violated_class=T.qname[lc], kind=kind, member=member, nest="depth=%d:%s" % (n, pname), idx=idx, replay=rep))
            swap_leaf(B, inner, valid_leaf)
    return info


# ---------------------------------------------------------------- the unit: repeated siblings
def check_siblings(ctx, T, B, per_class, obs, emit):
    """lists in which a later member REPEATS an earlier valid one and adds a violating grandchild: equal-looking
    siblings must each be checked.  For every child class with a checked grandchild: under one list row per parent
    (quick: one parent; thorough: all), [A, A'] / [A, A, A'] / [A, A', A] where A' differs from A below its own level
    only; the valid twin holds the same object twice and an equal copy"""
    from saml2_tophat.validate import valid_instance
    g = graph(T)
    rows = {}
    for pid in g:
        for (m, c, l) in g[pid]:
            if l:
                rows.setdefault(c, []).append((pid, m))
    made = 0
    for c in sorted(rows):
        below = [(m2, c2, l2) for (m2, c2, l2) in g[c] if leaves(T, per_class, c2)]
        if not below:
            continue
        plist = rows[c] if not ctx.quick else [ctx.rng.choice(rows[c])]
        m2, c2, l2 = below[0] if ctx.quick else ctx.rng.choice(below)
        lv = leaves(T, per_class, c2)
        idx, kind, member = lv[made % len(lv)]
        bad = per_class[c2][idx][3]

        def child(grand):
            o = B.minimal(c)
            if grand is not None:
                _put(B, o, c, m2, l2, c2, grand)
            return o
        for (pid, m) in plist:
            prow = T.rows[pid]
            mx = next((x[2] for x in prow["card"] if x[0] == m), None)
            own = prow["verify"] == "saml.ConditionsType_" and T.names[m] in ("one_time_use", "proxy_restriction")
            if own or (mx is not None and mx < 3):
                continue
            for twin_has_grandchild in (False, True):
                first = child(B.minimal(c2) if twin_has_grandchild else None)
                shapes = [("A,A'", [first, child(bad)], True), ("A,A,A'", [first, first, child(bad)], True), ("A,A',A", [first, child(bad), first], True),
                          ("A,A,A2", [first, first, child(B.minimal(c2))], False)]
                for shape, kids, violated in shapes:
                    p = B.minimal(pid)
                    setattr(p, T.names[m], kids)
                    viol = "%s:%s.%s" % (kind.split(":")[0], T.qname[c2], member)
                    where = "%s.%s[%s]>%s.%s" % (T.qname[pid], T.names[m], shape, T.qname[c], T.names[m2])
                    rep = {"unit": "siblings", "parent": T.qname[pid], "member": T.names[m], "child": T.qname[c], "child_member": T.names[m2], "grand": T.qname[c2],
                           "leaf_idx": idx, "shape": shape, "twin_has_grandchild": twin_has_grandchild}
                    r1, r2 = _oc(call(valid_instance, p)), _oc(call(p.verify))
                    ctx.count("siblings:%s:%s" % (shape, "accepted" if r1 is True else "refused"))
                    for fn, r in (("valid_instance", r1), ("verify", r2)):
                        if violated:
                            ctx.nontriv(("siblings", where, viol, twin_has_grandchild, fn))
                            if r is True:
                                ctx.oracle_fail("not-rejected:siblings:%s:%s" % (where, viol),
                                                "%s in the grandchild of a list member that repeats an earlier valid member is accepted by %s" % (viol, fn), dict(rep, call=fn))
                        elif r is not True:
                            ctx.oracle_fail("valid-rejected:siblings:%s:%s" % (where, r.name), "a list of equal valid members: %s raises %s" % (fn, r.name), dict(rep, call=fn))
                    emit(obj_to_coq(T, p), 1 if violated else 0, [obs(r1), obs(r2)],
                         dict(cls=T.qname[pid], violated_class=T.qname[c2], kind=kind, member=member, nest="siblings:" + where, idx=idx, replay=rep))
                    made += 1
    return made


def check_width(ctx, T, B, per_class):
    """long lists (oracle only): the violated member is the LAST of 2 / 33 / 64 / 200, under the list edges of the cycles
    and every unbounded list row of the message classes"""
    from saml2_tophat.validate import valid_instance
    g = graph(T)
    rec, cyc = cycles(T)
    rows = [(p, m, c) for path in cyc for (p, m, l, c) in path if l]
    extra = [(pid, m, c) for pid in sorted(g) for (m, c, l) in g[pid] if l and T.qname[pid].split(".")[0] in ("saml", "samlp", "md")]
    if ctx.quick:
        extra = ctx.rng.sample(extra, min(25, len(extra)))
    made = 0
    for (pid, m, c) in list(dict.fromkeys(rows + extra)):
        prow = T.rows[pid]
        mx = next((x[2] for x in prow["card"] if x[0] == m), None)
        own = prow["verify"] == "saml.ConditionsType_" and T.names[m] in ("one_time_use", "proxy_restriction")
        lv = leaves(T, per_class, c)
        if own or mx is not None or not lv:
            continue
        for w in WIDTHS:
            idx, kind, member = lv[(made + w) % len(lv)]
            for violated in (True, False):
                p = B.minimal(pid)
                sib = B.minimal(c)
                setattr(p, T.names[m], [sib] * (w - 1) + [per_class[c][idx][3] if violated else B.minimal(c)])
                where = "%s.%s" % (T.qname[pid], T.names[m])
                viol = "%s:%s.%s" % (kind.split(":")[0], T.qname[c], member)
                rep = {"unit": "width", "parent": T.qname[pid], "member": T.names[m], "child": T.qname[c], "leaf_idx": idx, "width": w, "violated": violated}
                for fn, r in (("valid_instance", _oc(call(valid_instance, p))), ("verify", _oc(call(p.verify)))):
                    ctx.count("width=%d:%s" % (w, "accepted" if r is True else "refused"))
                    if violated:
                        ctx.nontriv(("width", w, where, viol, fn))
                        if r is True:
                            ctx.oracle_fail("not-rejected:width=%d:%s:%s" % (w, where, viol), "the last of %d members of %s has %s: accepted by %s" % (w, where, viol, fn), dict(rep, call=fn))
                    elif r is not True:
                        ctx.oracle_fail("valid-rejected:width=%d:%s:%s" % (w, where, r.name), "%d valid members under %s: %s raises %s" % (w, where, fn, r.name), dict(rep, call=fn))
                made += 1
    return made


# ---------------------------------------------------------------- the entry points, with XML text
class big_stack(object):
    """the HARNESS's own serialisation of a deep tree needs more frames than the default limit; the library is
    always called under the default limit (outside this block)"""
    def __enter__(self):
        self.keep = sys.getrecursionlimit()
        sys.setrecursionlimit(20000)

    def __exit__(self, *a):
        sys.setrecursionlimit(self.keep)


def to_xml(o):
    with big_stack():
        return o.to_string().decode("utf8")


def _sc_chain(n, leaf):
    from saml2_tophat import samlp
    cur = leaf
    for i in range(n - 1):
        cur = samlp.StatusCode(value="urn:pv:sub:%d" % ((n - i) % 7), status_code=cur)
    return samlp.StatusCode(value=samlp.STATUS_SUCCESS, status_code=cur)


def entry_messages(n):
    """[(construct, violation, violated?, response object)]: the accepted response of the entry-point oracle with
    (a) n StatusCodes below the top-level Success code, (b) n/2 Assertion > Advice > Assertion levels (n child edges)"""
    from props import c13 as P
    from saml2_tophat import saml, samlp
    out = []
    for label, leaf in (("valid", samlp.StatusCode(value="urn:pv:leaf")), ("required-missing:samlp.StatusCode.value", samlp.StatusCode()),
                        ("required-empty:samlp.StatusCode.value", samlp.StatusCode(value="")), ("attr-invalid:samlp.StatusCode.value", samlp.StatusCode(value="http://[::1"))):
        r = P._entry_response()
        r.status.status_code = _sc_chain(n, leaf)
        out.append(("samlp.StatusCode.status_code", label, label != "valid", r))

    def inner(k):
        import resp
        a = resp._assertion(resp.default_assertion(id="adv-%d" % k))
        return a
    muts = [("valid", lambda a: None),
            ("required-missing:saml.Assertion.id", lambda a: setattr(a, "id", None)),
            ("required-empty:saml.Assertion.version", lambda a: setattr(a, "version", "")),
            ("attr-invalid:saml.Assertion.issue_instant", lambda a: setattr(a, "issue_instant", "yesterday")),
            ("attr-unanchored:saml.AuthnStatement.authn_instant", lambda a: setattr(a.authn_statement[0], "authn_instant", a.authn_statement[0].authn_instant + " trailing words")),
            ("card-below-min:saml.AudienceRestriction.audience", lambda a: setattr(a.conditions.audience_restriction[0], "audience", []))]
    for label, mut in muts:
        r = P._entry_response()
        leaf = inner(0)
        mut(leaf)
        cur = leaf
        for k in range(1, n // 2):
            a = inner(k)
            a.advice = saml.Advice(assertion=[cur])
            cur = a
        r.assertion[0].advice = saml.Advice(assertion=[inner(n), cur] if n % 4 == 0 else [cur])
        out.append(("saml.Assertion.advice>saml.Advice.assertion", label, label != "valid", r))
    return out


def _md_doc(n, leaf_mut):
    """EntitiesDescriptor nested n deep; the top level holds the IdP's EntityDescriptor (what a load must yield), the
    innermost one an EntityDescriptor that leaf_mut changes"""
    import env
    from saml2_tophat import md
    from saml2_tophat.config import IdPConfig, SPConfig
    idp = md.entity_descriptor_from_string(env.cached_md("idp", env.idp_conf(), IdPConfig))
    leaf_ed = md.entity_descriptor_from_string(env.cached_md("sp", env.sp_conf(), SPConfig))
    leaf_mut(leaf_ed)
    cur = md.EntitiesDescriptor(name="level-%d" % n, entity_descriptor=[leaf_ed])
    for k in range(n - 1, 0, -1):
        cur = md.EntitiesDescriptor(name="level-%d" % k, entities_descriptor=[cur] if k % 3 else [md.EntitiesDescriptor(name="sib", entity_descriptor=[_other(k)]), cur])
    return md.EntitiesDescriptor(name="top", entity_descriptor=[idp], entities_descriptor=[cur])


def _other(k):
    from saml2_tophat import md
    return md.EntityDescriptor(entity_id="https://other-%d.example.org/sp" % k,
                               spsso_descriptor=[md.SPSSODescriptor(protocol_support_enumeration="urn:oasis:names:tc:SAML:2.0:protocol",
                                                                    assertion_consumer_service=[md.AssertionConsumerService(
                                                                        binding="urn:oasis:names:tc:SAML:2.0:bindings:HTTP-POST", location="https://other.example.org/acs", index="1")])])


MD_MUTS = [("valid", lambda e: None),
           ("required-missing:md.EntityDescriptor.entity_id", lambda e: setattr(e, "entity_id", None)),
           ("attr-invalid:md.EntityDescriptor.valid_until", lambda e: setattr(e, "valid_until", "yesterday")),
           ("attr-unanchored:md.EntityDescriptor.cache_duration", lambda e: setattr(e, "cache_duration", "PT1H trailing words")),
           ("required-empty:md.AssertionConsumerService.index", lambda e: setattr(e.spsso_descriptor[0].assertion_consumer_service[0], "index", "")),
           ("attr-invalid:md.AssertionConsumerService.index", lambda e: setattr(e.spsso_descriptor[0].assertion_consumer_service[0], "index", "65536")),
           ("card-below-min:md.SPSSODescriptor.assertion_consumer_service", lambda e: setattr(e.spsso_descriptor[0], "assertion_consumer_service", []))]


def md_load(xml, how):
    """True = the store answers for the top-level IdP after loading the document"""
    import env
    from saml2_tophat.attribute_converter import ac_factory
    from saml2_tophat.mdstore import InMemoryMetaData, MetadataStore
    try:
        if how == "InMemoryMetaData.parse":
            m = InMemoryMetaData(ac_factory(), "")
            m.parse(xml)
            return env.IDP_ID in m.keys()
        mds = MetadataStore(ac_factory(), None)
        mds.imp({"inline": [xml]})
        return env.IDP_ID in mds.keys()
    except BaseException as e:  # noqa
        if isinstance(e, (KeyboardInterrupt, SystemExit)):
            raise
        return Exn(type(e).__name__)


def check_entries(ctx):
    from props import c13 as P
    import env
    env.tool_inprocess(True)
    depths = (8, 31, 32, 33, 64, 200, 400) + (() if ctx.quick else (900,))
    for n in depths:
        for construct, label, violated, r in entry_messages(n):
            if not violated and n > ENTRY_VALID_LIMIT:
                continue
            xml = call(to_xml, r)
            if isinstance(xml, Exn):
                ctx.broken.append(("depth-entry:%s:%d" % (construct, n), "harness: cannot serialise the message (%s)" % xml.name))
                continue
            got = P.run_entry("response", xml)
            ctx.count("depth-entry:response:%s" % ("accepted" if got is True else "refused"))
            rep = {"unit": "depth-entry", "entry": "parse_authn_request_response", "construct": construct, "depth": n, "label": label}
            if violated:
                ctx.nontriv(("depth-entry", construct, n, label))
                if got is True:
                    ctx.oracle_fail("not-rejected:depth=%d:%s:%s:parse_authn_request_response" % (n, construct, label),
                                    "a response with %s %d levels down %s is accepted by Saml2Client.parse_authn_request_response" % (label, n, construct), rep)
            elif got is not True:
                ctx.oracle_fail("valid-rejected:depth=%d:%s:parse_authn_request_response" % (n, construct),
                                "the response whose %s chain of %d levels satisfies every constraint is refused: %r" % (construct, n, got), rep)
        for label, mut in MD_MUTS:
            violated = label != "valid"
            if not violated and n > ENTRY_VALID_LIMIT:
                continue
            xml = call(to_xml, _md_doc(n, mut))
            if isinstance(xml, Exn):
                ctx.broken.append(("depth-entry:md:%d" % n, "harness: cannot serialise the metadata (%s)" % xml.name))
                continue
            for how in ("InMemoryMetaData.parse", "MetadataStore.imp"):
                got = md_load(xml, how)
                ctx.count("depth-entry:%s:%s" % (how, "loaded" if got is True else "refused"))
                rep = {"unit": "depth-entry", "entry": how, "construct": "md.EntitiesDescriptor.entities_descriptor", "depth": n, "label": label}
                if violated:
                    ctx.nontriv(("depth-entry", how, n, label))
                    if got is True:
                        ctx.oracle_fail("not-rejected:depth=%d:md.EntitiesDescriptor.entities_descriptor:%s:%s" % (n, label, how),
                                        "metadata with %s inside EntitiesDescriptors nested %d deep is loaded by %s" % (label, n, how), rep)
                elif got is not True:
                    ctx.oracle_fail("valid-rejected:depth=%d:md.EntitiesDescriptor.entities_descriptor:%s" % (n, how),
                                    "metadata whose EntitiesDescriptors nested %d deep satisfy every constraint is not loaded by %s: %r" % (n, how, got), rep)


# ---------------------------------------------------------------- replay
def replay(T, B, per_class, inp):
    from saml2_tophat.validate import valid_instance
    from props import c13 as P
    u = inp["unit"]
    if u == "depth":
        path = []
        for pq, mname in inp["path"]:
            pid, m = T.qname.index(pq), T.intern[mname]
            ch = next(c for c in T.rows[pid]["children"] if c[1] == m)
            path.append((pid, m, ch[3], ch[2]))
        lc = T.qname.index(inp["leaf_class"])
        vs = per_class[lc]
        if inp["leaf_idx"] >= len(vs):
            d = B.deep_violated(lc, per_class)
            vs = vs + [("deep:" + d[0], "-", True, d[1])]
        kind, member, violated, leaf = vs[inp["leaf_idx"]]
        root, _inner = spine(B, path, inp["depth"], leaf)
        print("depth %d along %s; innermost %s: %s %s (violated = %s)" % (inp["depth"], path_name(T, path), inp["leaf_class"], kind, member, violated))
        print("innermost instance:", schema_gen.describe(T, leaf, 1500))
        print("valid_instance(root) ->", _oc(call(valid_instance, root)), "; root.verify() ->", _oc(call(root.verify)))
    elif u in ("siblings", "width"):
        pid, m = T.qname.index(inp["parent"]), T.intern[inp["member"]]
        c = T.qname.index(inp["child"])
        if u == "width":
            leaf = per_class[c][inp["leaf_idx"]][3] if inp["violated"] else B.minimal(c)
            kids = [B.minimal(c)] * (inp["width"] - 1) + [leaf]
        else:
            c2, m2 = T.qname.index(inp["grand"]), T.intern[inp["child_member"]]
            l2 = next(x[3] for x in T.rows[c]["children"] if x[1] == m2)
            bad = per_class[c2][inp["leaf_idx"]][3]

            def child(grand):
                o = B.minimal(c)
                if grand is not None:
                    _put(B, o, c, m2, l2, c2, grand)
                return o
            first = child(B.minimal(c2) if inp["twin_has_grandchild"] else None)
            kids = {"A,A'": [first, child(bad)], "A,A,A'": [first, first, child(bad)], "A,A',A": [first, child(bad), first], "A,A,A2": [first, first, child(B.minimal(c2))]}[inp["shape"]]
        p = B.minimal(pid)
        setattr(p, inp["member"], kids)
        print(schema_gen.describe(T, p, 3000))
        print("valid_instance ->", _oc(call(valid_instance, p)), "; obj.verify() ->", _oc(call(p.verify)))
    elif u == "depth-entry":
        import env
        env.tool_inprocess(True)
        n = inp["depth"]
        if inp["entry"] == "parse_authn_request_response":
            r = next(x[3] for x in entry_messages(n) if x[0] == inp["construct"] and x[1] == inp["label"])
            xml = to_xml(r)
            print(inp["label"], "at depth", n, "of", inp["construct"], "(%d characters of XML)" % len(xml))
            print("root.verify() ->", _oc(call(r.verify)), "; parse_authn_request_response ->", P.run_entry("response", xml))
        else:
            xml = to_xml(_md_doc(n, dict(MD_MUTS)[inp["label"]]))
            print(inp["label"], "inside EntitiesDescriptors nested", n, "deep (%d characters of XML)" % len(xml))
            print("%s -> top-level entity loaded:" % inp["entry"], md_load(xml, inp["entry"]))
