"""Parse the text Coq prints for a `val` (VL/VS/VZ/VB/VNone/VE/VN) back into Python, to show a
model/implementation disagreement field by field.  Diagnostics only."""
import re

TOK = re.compile(r"\s*(VL|VS|VZ|VB|VNone|VE|VN|\[|\]|;|\(|\)|-?\d+|true|false|%[A-Za-z]+|nil)")


def parse(text):
    text = text.split(": val")[0]
    toks = [t for t in TOK.findall(text) if not t.startswith("%")]
    pos = [0]

    def peek():
        return toks[pos[0]] if pos[0] < len(toks) else None

    def take():
        t = toks[pos[0]]
        pos[0] += 1
        return t

    def lst(item):
        if peek() == "nil":
            take()
            return []
        assert take() == "["
        out = []
        while peek() != "]":
            out.append(item())
            if peek() == ";":
                take()
        take()
        return out

    def num():
        t = take()
        if t == "(":
            v = num()
            assert take() == ")"
            return v
        return int(t)

    def val():
        t = take()
        if t == "(":
            v = val()
            assert take() == ")"
            return v
        if t == "VNone":
            return None
        if t == "VL":
            return lst(val)
        if t in ("VS", "VE"):
            cps = lst(num)
            s = "".join(chr(c) for c in cps)
            return s if t == "VS" else {"raises": s}
        if t in ("VZ", "VN"):
            return num()
        if t == "VB":
            return take() == "true"
        raise ValueError(t)
    return val()


def diff(a, b, path="", out=None, limit=12):
    out = [] if out is None else out
    if len(out) >= limit:
        return out
    if isinstance(a, list) and isinstance(b, list):
        if len(a) != len(b):
            out.append("%s: lengths %d / %d : %r / %r" % (path, len(a), len(b), a, b))
        for i, (x, y) in enumerate(zip(a, b)):
            diff(x, y, "%s[%d]" % (path, i), out, limit)
    elif a != b:
        out.append("%s: impl %r / model %r" % (path, a, b))
    return out
