"""C10 - THE PROCESS TIME ZONE AND THE CLOCK SOURCES.

Request.issue_instant_ok compares `now` with the IssueInstant of the message; both must be read as UTC whatever the zone
of the process is.  Three passes, each under TZ = UTC, Asia/Tokyo, America/New_York, Pacific/Kiritimati, Europe/London
(os.environ['TZ'] + time.tzset(), restored afterwards):

 A  zone-faithful controlled clock at NOW (summer: New York and London are in DST): the cases go through Cases.add_doc,
    i.e. through the model correspondence (the model's verdict is a function of (now_utc, text, allowance) only -
    Props/C10.v C10_window_*) and the ordinary oracle, and the verdict is compared with the one under UTC;
 B  the same clock at NOW + 120 d (winter: no DST anywhere): implementation against the window by specification;
 C  NO patch at all - the real clock of the machine, IssueInstant computed relative to time.time() (a clock source
    the patch does not know about cannot hide behind it); edges kept 5 s away, the reading bracketed by two clock reads.

The controlled clock of env.py answers datetime.now() with the UTC reading and leaves time.localtime() / strftime() to
the real clock: a window that reads the local wall clock would look right under it.  ZoneClock answers EVERY clock
function of the modules time and datetime as the C library would at the controlled instant in the zone in force:
gmtime / utcnow in UTC, localtime / now / today / fromtimestamp / strftime in the zone; mktime and calendar.timegm are
pure functions of their argument (and the zone) and stay real.
"""
import calendar
import datetime as _dt
import os
import time as _time

import env
import reqgen as g
from core import Exn, call
from reqgen import KINDS, BINDINGS, NOW, cfgspec, rspec

ZONES = ["UTC", "Asia/Tokyo", "America/New_York", "Pacific/Kiritimati", "Europe/London"]
# (zone, instant) -> what local time is ahead of UTC there, known independently of the C library (self-check of tzset)
WINTER = NOW + 120 * 86400
EXPECT_OFFSET = {("UTC", NOW): 0, ("Asia/Tokyo", NOW): 32400, ("America/New_York", NOW): -14400, ("Pacific/Kiritimati", NOW): 50400,
                 ("Europe/London", NOW): 3600, ("UTC", WINTER): 0, ("Asia/Tokyo", WINTER): 32400, ("America/New_York", WINTER): -18000,
                 ("Pacific/Kiritimati", WINTER): 50400, ("Europe/London", WINTER): 0}
DISTANCES = [0, 1, 3600, 4 * 3600, 5 * 3600, 9 * 3600, 14 * 3600]     # seconds from an end of the window, inside and outside
ALLOWANCES = [0, 60]
KEY = "verdict-depends-on-process-time-zone:%s:%s"


class Zone(object):
    """with Zone('Asia/Tokyo'): the process lives there"""

    def __init__(self, name):
        self.name = name

    def __enter__(self):
        self.saved = os.environ.get("TZ")
        os.environ["TZ"] = self.name
        _time.tzset()
        for (z, t), off in EXPECT_OFFSET.items():
            if z == self.name and calendar.timegm(_time.localtime(t)) - t != off:
                raise RuntimeError("tzset(%s) is not followed by the C library (no zone data?)" % self.name)
        return self

    def __exit__(self, *a):
        if self.saved is None:
            os.environ.pop("TZ", None)
        else:
            os.environ["TZ"] = self.saved
        _time.tzset()


class _ZoneTime(object):
    """module `time` at a controlled instant, zone-faithful"""

    def __init__(self, clock):
        self._c = clock

    def time(self):
        return float(self._c.now)

    def time_ns(self):
        return int(self._c.now) * 10 ** 9

    def gmtime(self, t=None):
        return _time.gmtime(self._c.now if t is None else t)

    def localtime(self, t=None):
        return _time.localtime(self._c.now if t is None else t)

    def strftime(self, fmt, t=None):
        return _time.strftime(fmt, self.localtime() if t is None else t)

    def asctime(self, t=None):
        return _time.asctime(self.localtime() if t is None else t)

    def ctime(self, t=None):
        return _time.ctime(self._c.now if t is None else t)

    def __getattr__(self, n):
        return getattr(_time, n)


class _ZoneDatetimeModule(object):
    """module `datetime` with the class datetime replaced"""

    def __init__(self, cls):
        self.datetime = cls

    def __getattr__(self, n):
        return getattr(_dt, n)


class ZoneClock(object):
    """with ZoneClock(now) as c: ...   every clock function time_util / request can reach answers for `now`"""

    def __init__(self, now):
        self.now = int(now)

    def __enter__(self):
        clock = self
        from saml2_tophat import time_util, request

        class FakeDT(_dt.datetime):
            @classmethod
            def utcnow(cls):
                return cls.utcfromtimestamp(clock.now)

            @classmethod
            def now(cls, tz=None):
                return cls.fromtimestamp(clock.now, tz)

            @classmethod
            def today(cls):
                return cls.fromtimestamp(clock.now)
        self._saved = []
        ft = _ZoneTime(self)
        for mod in (time_util, request):
            for name, val in list(vars(mod).items()):
                new = None
                if val is _time:
                    new = ft
                elif val is _dt.datetime:
                    new = FakeDT
                elif val is _dt:
                    new = _ZoneDatetimeModule(FakeDT)
                if new is not None:
                    self._saved.append((mod, name, val))
                    setattr(mod, name, new)
        try:
            self.selfcheck(time_util)
        except Exception:
            self.__exit__()
            raise
        return self

    def __exit__(self, *a):
        for mod, name, val in self._saved:
            setattr(mod, name, val)
        self._saved = []

    def selfcheck(self, time_util):
        """of the patch itself - through the patched names, not through library functions (they are what is under test)"""
        t, d = time_util.time, time_util.datetime
        real = calendar.timegm(_time.localtime(self.now)) - self.now
        ok = (calendar.timegm(t.gmtime()) == self.now and int(t.time()) == self.now and
              calendar.timegm(d.utcnow().timetuple()) == self.now and
              calendar.timegm(d.now().timetuple()) - self.now == real and
              calendar.timegm(t.localtime()) - self.now == real)
        if not ok:
            raise RuntimeError("zone-faithful clock: the patched names do not answer for the controlled instant")


# ---------------------------------------------------------------------------
# the slice of the request families
# ---------------------------------------------------------------------------
SLICE = [("idp", "full", "authn", "redirect"), ("idp", "full", "authn", "post"), ("idp", "full", "authn", "soap"),
         ("idp", "full", "logout", "soap"), ("idp", "full", "logout", "post"), ("idp", "full", "attrq", "soap"),
         ("sp", "sp-full", "logout", "soap"), ("aa", "aa-only", "attrq", "soap")]
SENDER = {"idp": env.SP_ID, "aa": env.SP_ID, "sp": env.IDP_ID}
SENDER_KEY = {"idp": "sp", "aa": "sp", "sp": "idp"}
PLAIN = dict(valid=True, modified=False, wrap=None, name="none")


def offsets(w, near):
    """(label, seconds from now): both ends of the window, inside and outside by each distance.  near = the smallest
    distance that is decided (0 and 1 s under a controlled clock; 5 s under the real one)"""
    out = []
    for d in DISTANCES:
        d2 = d if (near <= 1 or d > 1) else near + d
        for side, sgn in (("ahead", 1), ("back", -1)):
            out.append(("%s-in-%ds" % (side, d2), sgn * (w - d2)))
            out.append(("%s-out-%ds" % (side, d2), sgn * (w + d2)))
    seen, res = set(), []
    for lab, off in out:
        if off not in seen:
            seen.add(off)
            res.append((lab, off))
    return res


def in_window(off, w):
    """the property's window: strictly within a day plus allowance (the two instants exactly at the ends are left open)"""
    return None if abs(off) == w else -w < off < w


def _verdict(cs, kind, bname, text):
    ent = g.entity_for(cs)
    got = call(getattr(ent, KINDS[kind]["method"]), text, BINDINGS[bname][0])
    return not isinstance(got, Exn) and got is not None and hasattr(got, "message")


def _plan(quick, rotate):
    """(etype, eps, kind, binding, allowance, signed) - quick tier: every slice x allowance, signed and unsigned alternate
    so that over the zones each is run in both states"""
    n = rotate
    for etype, eps, kind, bname in SLICE:
        for a in ALLOWANCES:
            n += 1
            for signed in ([bool(n % 2)] if quick else [False, True]):
                yield etype, eps, kind, bname, a, signed


def _replay(cs, kind, bname, text, zone, clock, r, note):
    return dict(cfg=cs, kind=kind, binding=bname, text=text, note=note, mutation="none", via=None, request=r, tz=zone, clock=clock)


def fam_zone_controlled(C, quick):
    """pass A: model correspondence + oracle under the zone-faithful controlled clock at NOW, verdicts against UTC's"""
    ctx = C.ctx
    utc = {}
    for zi, zone in enumerate(ZONES):
        with Zone(zone), ZoneClock(NOW):
            for etype, eps, kind, bname, a, signed in _plan(quick and zone != "UTC", zi):
                want = True if (signed and etype != "sp") else None
                cs = cfgspec(etype=etype, eps=eps, slack=a, want=want)
                w = 86400 + a
                key = SENDER_KEY[etype] if signed else None
                for lab, off in [("now", 0)] + offsets(w, 0):
                    r = rspec(kind=kind, issuer=SENDER[etype], dt=off)
                    x = g.request_xml(r, sign=key)
                    C.last = None
                    C.add_doc("time-zone", cs, kind, bname, x, PLAIN, r, signer=key, tag="tz=" + zone, note="%s %s" % (zone, lab))
                    got = C.last
                    ctx.count("time-zone:controlled:%s" % zone)
                    ident = (etype, kind, bname, a, signed, off)
                    if zone == "UTC":
                        utc[ident] = got
                    elif got is not None and ident in utc and utc[ident] is not None and got != utc[ident]:
                        ctx.oracle_fail(KEY % (zone, "%s:a%d" % (lab, a)),
                                        "%s %s over %s, IssueInstant = now %+d s, allowance %d: %s with TZ=%s but %s with TZ=UTC (controlled clock)"
                                        % ("signed" if signed else "unsigned", kind, bname, off, a, "handed over" if got else "refused", zone,
                                           "handed over" if utc[ident] else "refused"),
                                        _replay(cs, kind, bname, g.encode(x, bname), zone, "controlled", r, lab))


def _by_spec(ctx, zone, clock, cs, kind, bname, a, signed, lab, off_lo, off_hi, got, text, r):
    """verdict against the window by specification; off_lo..off_hi = the distance from `now` over the time the call took"""
    w = 86400 + a
    e1, e2 = in_window(off_lo, w), in_window(off_hi, w)
    if e1 is None or e2 is None or e1 != e2:
        ctx.count("time-zone:%s:undecided-at-an-end-of-the-window" % clock)
        return
    ctx.nontriv(("tz", zone, clock, kind, bname, a, signed, lab))
    ctx.count("time-zone:%s:%s" % (clock, zone))
    if got == e1:
        return
    what = "%s %s over %s, IssueInstant = now %+d s, allowance %d: %s with TZ=%s (%s clock), the UTC verdict is %s" % (
        "signed" if signed else "unsigned", kind, bname, off_lo, a, "handed over" if got else "refused", zone, clock,
        "handed over" if e1 else "refused")
    rp = _replay(cs, kind, bname, text, zone, clock, r, lab)
    if got and not e1:
        ctx.oracle_fail("stale-or-future-handed-over:tz=%s:%s:a%d" % (zone, lab, a), what, rp)
    ctx.oracle_fail(KEY % (zone, "%s:a%d" % (lab, a)), what, rp)


def fam_zone_winter(C, quick):
    """pass B: the controlled clock in winter (the model's now is NOW: implementation against the specification only)"""
    for zi, zone in enumerate(ZONES):
        with Zone(zone), ZoneClock(WINTER):
            for etype, eps, kind, bname, a, signed in _plan(quick, zi + 1):
                cs = cfgspec(etype=etype, eps=eps, slack=a, want=True if (signed and etype != "sp") else None)
                key = SENDER_KEY[etype] if signed else None
                for lab, off in offsets(86400 + a, 0):
                    r = rspec(kind=kind, issuer=SENDER[etype], dt=WINTER - NOW + off)
                    text = g.encode(g.request_xml(r, sign=key), bname)
                    _by_spec(C.ctx, zone, "controlled-winter", cs, kind, bname, a, signed, lab, off, off, _verdict(cs, kind, bname, text), text, r)


def fam_zone_real_clock(C, quick):
    """pass C: nothing patched; IssueInstant relative to the machine's clock, ends of the window kept 5 s away"""
    for zi, zone in enumerate(ZONES):
        with Zone(zone):
            for etype, eps, kind, bname, a, signed in _plan(quick, zi):
                cs = cfgspec(etype=etype, eps=eps, slack=a, want=True if (signed and etype != "sp") else None)
                key = SENDER_KEY[etype] if signed else None
                for lab, off in offsets(86400 + a, 5):
                    t0 = int(_time.time())
                    r = rspec(kind=kind, issuer=SENDER[etype], dt=t0 - NOW + off)
                    text = g.encode(g.request_xml(r, sign=key), bname)
                    got = _verdict(cs, kind, bname, text)
                    t1 = int(_time.time()) + 1
                    # IssueInstant - now lies in [off - (t1 - t0), off] whenever the library read the clock
                    _by_spec(C.ctx, zone, "real", cs, kind, bname, a, signed, lab, off, off - (t1 - t0), got, text, r)


def replay(inp):
    """replay of a time-zone case (payload fields tz, clock)"""
    zone, clock = inp["tz"], inp["clock"]
    cs, kind, bname, text = inp["cfg"], inp["kind"], inp["binding"], inp["text"]
    print("replay: %s over %s under TZ=%s, %s clock, %s, configuration %s" % (kind, bname, zone, clock, inp.get("note"), cs))
    out = {}
    for z in ("UTC", zone):
        with Zone(z):
            if clock == "real":
                r = dict(inp["request"])
                t0 = int(_time.time())
                off = [o for lab, o in offsets(86400 + (cs["slack"] or 0), 5) if lab == inp["note"]][0]
                r["dt"] = t0 - NOW + off
                key = SENDER_KEY[cs["etype"]] if "Signature" in _decoded(text, bname) else None
                out[z] = _verdict(cs, kind, bname, g.encode(g.request_xml(r, sign=key), bname))
                print("  TZ=%-20s IssueInstant = now %+d s (re-dated to the machine's clock): %s" % (z, off, "HANDED OVER" if out[z] else "refused"))
            else:
                with ZoneClock(WINTER if clock == "controlled-winter" else NOW):
                    out[z] = _verdict(cs, kind, bname, text)
                print("  TZ=%-20s %s" % (z, "HANDED OVER" if out[z] else "refused"))
    return 0


def _decoded(text, bname):
    import base64
    import zlib
    try:
        if bname == "post":
            return base64.b64decode(text).decode("utf-8", "replace")
        if bname == "redirect":
            return zlib.decompress(base64.b64decode(text), -15).decode("utf-8", "replace")
    except Exception:
        pass
    return text


# ---------------------------------------------------------------------------
# correspondence unit: Request.issue_instant_ok on TEXTS against Model/RequestWindow.v window_text
# ---------------------------------------------------------------------------
class _Msg(object):
    def __init__(self, text):
        self.issue_instant = text


AHEAD = {z: {t: off for (zz, t), off in EXPECT_OFFSET.items() if zz == z} for z in ZONES}


def unit_window_text(ctx, quick):
    """the real Request.issue_instant_ok (one definition for all request classes: Gen/RequestTable.v) on IssueInstant
    texts - every spelling time_util.str_to_time takes or refuses - under each zone and both seasons, against window_text
    (now, zone, allowance, text): the model does not read the zone"""
    from core import cstr, cz
    from saml2_tophat.request import Request
    cases = []
    for zone in ZONES:
        for now in (NOW, WINTER):
            with Zone(zone), ZoneClock(now):
                for a in ((0, 60) if quick else (0, 60, 300)):
                    w = 86400 + a
                    texts = []
                    for lab, off in [("now", 0)] + offsets(w, 0):
                        if abs(off) == w:
                            continue                                   # exactly at an end: left open (ASSUMPTIONS)
                        texts.append(g.instant(now + off))
                        if lab.endswith(("-1s", "-3600s", "-32400s")):
                            texts += [g.instant(now + off, "frac"), g.instant(now + off, "noZ")]
                    texts += ["", "yesterday", g.instant(now, "date"), g.instant(now, "offset"), g.instant(now).lower(),
                              g.instant(now).replace("T", " "), g.instant(now) + "\n", "2026-02-30T10:00:00Z", "2026-9-21T14:13:20Z"]
                    for text in texts:
                        rq = Request(None, [], timeslack=a)
                        rq.message = _Msg(text)
                        got = call(rq.issue_instant_ok)
                        if not isinstance(got, (bool, Exn)):
                            got = Exn("NotABool:%r" % (got,))
                        cases.append(dict(id=len(cases), coq="(%s, %s, %s, %s)" % (cz(now), cz(AHEAD[zone][now]), cz(a), cstr(text)),
                                          impl=got, show=dict(zone=zone, now=now, allowance=a, text=text)))
                        ctx.count("window-text:%s" % ("true" if got is True else "false" if got is False else got.name))
    return ctx.correspond("issue_instant_ok_texts", "Model.TimeUtil Model.RequestWindow", "run_window_text", "(Z * Z * Z * str)", cases, shard=400)
