"""Stand-in for the xmlsec1 command line (DESIGN.md 4.3, Appendix B).

Implements exactly the command lines pysaml2 issues.  Real RSA PKCS#1 v1.5
signatures (SHA-1/224/256/384/512) and a real hybrid encryption through
`cryptography`; canonicalisation through xml.etree.ElementTree.canonicalize.

Node selection semantics (the same as coq/Model/Xmlsec.v):
  * `--id-attr:ID [NS:]NAME` registers attribute ID of every element with local
    name NAME (and namespace NS when given) as an XML ID.  Two registered
    elements carrying the same value: policy PV_XMLSEC_DUP in {fail, first, last}
    (default fail).
  * start node = document root, or the element whose registered ID equals
    `--node-id`;  the operation node is the FIRST ds:Signature (resp.
    xenc:EncryptedData) in document order inside the start node's subtree.
  * every ds:Reference is processed: URI "" = whole document, "#x" = element
    with registered ID x, anything else refused when
    `--enabled-reference-uris empty,same-doc` was given (without that option the
    special scheme `pv-ext:` resolves to attacker-supplied bytes);
    the enveloped-signature transform removes the signature being processed.
  * SignatureValue is checked over the canonical SignedInfo with the key given
    on the command line only; KeyInfo inside the message is never used.
  * success: exit 0 and a line `OK` on stderr;  failure: exit 1 and `FAIL`.

Fault injection (C20): env PV_XMLSEC_FAULTS = JSON {"counter": path,
"schedule": {"<n>"|"*": mode}}; the n-th invocation (0-based, counted in the
counter file) misbehaves in the given mode.
"""
import base64
import hashlib
import json
import os
import re
import sys
import xml.etree.ElementTree as ET

DS = "http://www.w3.org/2000/09/xmldsig#"
XENC = "http://www.w3.org/2001/04/xmlenc#"

HASHES = {
    "sha1": "sha1", "sha224": "sha224", "sha256": "sha256", "sha384": "sha384", "sha512": "sha512",
}


def _hash_of_uri(uri):
    u = uri.lower()
    for h in ("sha224", "sha256", "sha384", "sha512", "sha1"):
        if u.endswith(h) or u.endswith("#" + h) or ("-" + h) in u:
            return h
    return None


_keycache = {}


def _load_priv(path):
    from cryptography.hazmat.primitives.serialization import load_pem_private_key
    data = _read(path)
    k = _keycache.get(data)
    if k is None:
        k = load_pem_private_key(data, None)
        _keycache[data] = k
    return k


def _load_pub_from_cert(path):
    from cryptography import x509
    data = _read(path)
    k = _keycache.get(data)
    if k is None:
        k = x509.load_pem_x509_certificate(data).public_key()
        _keycache[data] = k
    return k


def _hashobj(name):
    from cryptography.hazmat.primitives import hashes
    return {"sha1": hashes.SHA1, "sha224": hashes.SHA224, "sha256": hashes.SHA256,
            "sha384": hashes.SHA384, "sha512": hashes.SHA512}[name]()


def _read(path):
    with open(path, "rb") as f:
        return f.read()


def _write(path, data):
    with open(path, "wb") as f:
        f.write(data)


class Fail(Exception):
    pass


def c14n(elem, exclude=None):
    """canonical bytes of the subtree `elem` with element `exclude` removed"""
    if exclude is not None:
        elem = _copy_without(elem, exclude)
    txt = ET.tostring(elem, encoding="unicode")
    return ET.canonicalize(xml_data=txt).encode("utf-8")


def _copy_without(elem, exclude):
    new = ET.Element(elem.tag, dict(elem.attrib))
    new.text, new.tail = elem.text, elem.tail
    for ch in elem:
        if ch is exclude:
            # keep the tail text attached to the previous sibling / parent text
            continue
        new.append(_copy_without(ch, exclude))
    return new


def _local(tag):
    return tag.split("}", 1)[1] if tag.startswith("{") else tag


def _ns(tag):
    return tag[1:].split("}", 1)[0] if tag.startswith("{") else ""


def register_ids(root, id_attr, spec):
    """spec is `NS:NAME` or `NAME`.  Returns dict id -> element (per dup policy)"""
    if ":" in spec:
        ns, name = spec.rsplit(":", 1)
    else:
        ns, name = None, spec
    policy = os.environ.get("PV_XMLSEC_DUP", "fail")
    ids = {}
    for el in root.iter():
        if _local(el.tag) != name:
            continue
        if ns is not None and _ns(el.tag) != ns:
            continue
        v = el.attrib.get(id_attr)
        if v is None:
            continue
        if v in ids:
            if policy == "fail":
                raise Fail("duplicate ID %r" % v)
            if policy == "first":
                continue
        ids[v] = el
    return ids


def first_in_doc_order(start, tag):
    for el in start.iter():
        if el.tag == tag:
            return el
    return None


def parse_args(argv):
    a = {"cmd": None, "id_attrs": [], "pos": []}
    i = 1
    takes = {"--privkey-pem", "--pubkey-cert-pem", "--pubkey-cert-der", "--node-id", "--output",
             "--enabled-reference-uris", "--session-key", "--xml-data", "--node-xpath",
             "--pubkey-pem", "--node-name", "--trusted-pem"}
    while i < len(argv):
        x = argv[i]
        if x in ("--sign", "--verify", "--encrypt", "--decrypt", "--version", "--list-transforms"):
            a["cmd"] = x[2:]
        elif x.startswith("--id-attr:"):
            a["id_attrs"].append((x[len("--id-attr:"):], argv[i + 1]))
            i += 1
        elif x in takes:
            a[x[2:]] = argv[i + 1]
            i += 1
        elif x.startswith("--"):
            pass
        else:
            a["pos"].append(x)
        i += 1
    return a


def _start_node(root, a):
    ids = {}
    for id_attr, spec in a["id_attrs"]:
        ids.update(register_ids(root, id_attr, spec))
    nid = a.get("node-id")
    if nid:
        if nid not in ids:
            raise Fail("node-id %r not found" % nid)
        return ids[nid], ids
    return root, ids


def _resolve(uri, root, ids, a):
    if uri == "" or uri is None:
        return root
    if uri.startswith("#"):
        el = ids.get(uri[1:])
        if el is None:
            raise Fail("reference %r does not resolve" % uri)
        return el
    if "enabled-reference-uris" in a:
        raise Fail("reference uri %r not enabled" % uri)
    if uri.startswith("pv-ext:"):
        return ET.fromstring(base64.b64decode(uri[len("pv-ext:"):]))
    raise Fail("cannot fetch %r" % uri)


def _sig_parts(sig):
    si = sig.find("{%s}SignedInfo" % DS)
    sv = sig.find("{%s}SignatureValue" % DS)
    if si is None or sv is None:
        raise Fail("malformed signature")
    sm = si.find("{%s}SignatureMethod" % DS)
    refs = si.findall("{%s}Reference" % DS)
    if sm is None or not refs:
        raise Fail("malformed SignedInfo")
    return si, sv, sm, refs


def do_sign(a):
    from cryptography.hazmat.primitives.asymmetric import padding
    doc = ET.fromstring(_read(a["pos"][-1]))
    start, ids = _start_node(doc, a)
    sig = first_in_doc_order(start, "{%s}Signature" % DS)
    if sig is None:
        raise Fail("no signature template")
    si, sv, sm, refs = _sig_parts(sig)
    for ref in refs:
        target = _resolve(ref.attrib.get("URI", ""), doc, ids, a)
        dm = ref.find("{%s}DigestMethod" % DS)
        h = _hash_of_uri(dm.attrib["Algorithm"])
        if h is None:
            raise Fail("unknown digest")
        dv = ref.find("{%s}DigestValue" % DS)
        dv.text = base64.b64encode(hashlib.new(h, c14n(target, exclude=sig)).digest()).decode()
    h = _hash_of_uri(sm.attrib["Algorithm"])
    if h is None or "rsa" not in sm.attrib["Algorithm"]:
        raise Fail("unknown signature method")
    key = _load_priv(a["privkey-pem"])
    sv.text = base64.b64encode(key.sign(c14n(si), padding.PKCS1v15(), _hashobj(h))).decode()
    _write(a["output"], ET.tostring(doc, encoding="utf-8"))
    return 0, b"", b""


def do_verify(a):
    from cryptography.hazmat.primitives.asymmetric import padding
    from cryptography.exceptions import InvalidSignature
    doc = ET.fromstring(_read(a["pos"][-1]))
    start, ids = _start_node(doc, a)
    sig = first_in_doc_order(start, "{%s}Signature" % DS)
    if sig is None:
        raise Fail("no signature")
    si, sv, sm, refs = _sig_parts(sig)
    for ref in refs:
        target = _resolve(ref.attrib.get("URI", ""), doc, ids, a)
        dm = ref.find("{%s}DigestMethod" % DS)
        h = _hash_of_uri(dm.attrib.get("Algorithm", "")) if dm is not None else None
        if h is None:
            raise Fail("unknown digest")
        dv = ref.find("{%s}DigestValue" % DS)
        want = base64.b64encode(hashlib.new(h, c14n(target, exclude=sig)).digest()).decode()
        if dv is None or (dv.text or "").strip() != want:
            raise Fail("digest mismatch")
    h = _hash_of_uri(sm.attrib.get("Algorithm", ""))
    if h is None or "rsa" not in sm.attrib.get("Algorithm", ""):
        raise Fail("unknown signature method")
    cert = a.get("pubkey-cert-pem")
    if not cert:
        raise Fail("no key")
    pub = _load_pub_from_cert(cert)
    try:
        pub.verify(base64.b64decode((sv.text or "").strip()), c14n(si), padding.PKCS1v15(), _hashobj(h))
    except (InvalidSignature, ValueError):
        raise Fail("signature value")
    return 0, b"", b"OK\nSignedInfo References (ok/all): %d/%d\nManifests References (ok/all): 0/0\n" % (len(refs), len(refs))


def _sym_encrypt(key, data):
    from cryptography.hazmat.primitives.ciphers import Cipher, algorithms, modes
    iv = os.urandom(16)
    pad = 16 - len(data) % 16
    data += bytes([pad]) * pad
    enc = Cipher(algorithms.AES(key), modes.CBC(iv)).encryptor()
    return iv + enc.update(data) + enc.finalize()


def _sym_decrypt(key, blob):
    from cryptography.hazmat.primitives.ciphers import Cipher, algorithms, modes
    iv, ct = blob[:16], blob[16:]
    dec = Cipher(algorithms.AES(key), modes.CBC(iv)).decryptor()
    data = dec.update(ct) + dec.finalize()
    return data[:-data[-1]]


def _xpath_names(xp):
    return re.findall(r"local-name\(\)\s*=\s*['\"]([^'\"]+)['\"]", xp)


def _select_path(root, names):
    """first element (document order) reached by the child-step path `names`"""
    if not names or _local(root.tag) != names[0]:
        return None, None

    def go(el, rest, parent):
        if not rest:
            return parent, el
        for ch in el:
            if _local(ch.tag) == rest[0]:
                r = go(ch, rest[1:], el)
                if r[1] is not None:
                    return r
        return None, None
    return go(root, names[1:], None)


def do_encrypt(a):
    from cryptography.hazmat.primitives.asymmetric import padding
    tmpl = ET.fromstring(_read(a["pos"][-1]))
    data = _read(a["xml-data"])
    pub = _load_pub_from_cert(a["pubkey-cert-pem"])
    session = os.urandom(32)
    xp = a.get("node-xpath")
    if xp:
        doc = ET.fromstring(data)
        parent, node = _select_path(doc, _xpath_names(xp))
        if node is None:
            raise Fail("xpath selects nothing")
        plain = ET.tostring(node, encoding="utf-8")
    else:
        doc, parent, node, plain = None, None, None, data
    cvs = [e for e in tmpl.iter("{%s}CipherValue" % XENC)]
    if len(cvs) < 2:
        raise Fail("template")
    # document order: first CipherValue is the EncryptedKey's, second the data's
    cvs[0].text = base64.b64encode(pub.encrypt(session, padding.PKCS1v15())).decode()
    cvs[1].text = base64.b64encode(_sym_encrypt(session, plain)).decode()
    if doc is None:
        out = ET.tostring(tmpl, encoding="utf-8")
    else:
        tail = node.tail
        idx = list(parent).index(node)
        parent.remove(node)
        tmpl.tail = tail
        parent.insert(idx, tmpl)
        out = ET.tostring(doc, encoding="utf-8")
    _write(a["output"], out)
    return 0, b"", b""


def do_decrypt(a):
    from cryptography.hazmat.primitives.asymmetric import padding
    doc = ET.fromstring(_read(a["pos"][-1]))
    tag = "{%s}EncryptedData" % XENC
    policy = os.environ.get("PV_XMLSEC_UNDEC", "fail")   # fail | skip
    key = _load_priv(a["privkey-pem"])
    parents = {c: p for p in doc.iter() for c in p}
    for ed in [e for e in doc.iter() if e.tag == tag]:
        try:
            ek = first_in_doc_order(ed, "{%s}EncryptedKey" % XENC)
            if ek is None:
                raise Fail("no EncryptedKey")
            ekcv = first_in_doc_order(ek, "{%s}CipherValue" % XENC)
            cd = None
            for ch in ed:
                if ch.tag == "{%s}CipherData" % XENC:
                    cd = ch
            if ekcv is None or cd is None:
                raise Fail("malformed EncryptedData")
            try:
                session = key.decrypt(base64.b64decode((ekcv.text or "").strip()), padding.PKCS1v15())
            except Exception:
                raise Fail("key does not open EncryptedKey")
            if len(session) != 32:
                raise Fail("key does not open EncryptedKey")
            cv = first_in_doc_order(cd, "{%s}CipherValue" % XENC)
            try:
                plain = _sym_decrypt(session, base64.b64decode((cv.text or "").strip()))
                node = ET.fromstring(plain)
            except Exception:
                raise Fail("garbled ciphertext")
        except Fail:
            if policy == "skip":
                continue
            raise
        if ed is doc:
            out = ET.tostring(node, encoding="utf-8")
        else:
            p = parents[ed]
            idx = list(p).index(ed)
            node.tail = ed.tail
            p.remove(ed)
            p.insert(idx, node)
            out = ET.tostring(doc, encoding="utf-8")
        _write(a["output"], out)
        return 0, b"", b""
    raise Fail("nothing to decrypt")


TRANSFORMS = ('"base64","c14n","c14n-with-comments","c14n11","exc-c14n","enveloped-signature","sha1","sha224",'
              '"sha256","sha384","sha512","rsa-sha1","rsa-sha224","rsa-sha256","rsa-sha384","rsa-sha512",'
              '"tripledes-cbc","aes128-cbc","aes192-cbc","aes256-cbc","rsa-1_5","rsa-oaep-mgf1p","hmac-sha1","dsa-sha1"')


def _fault(argv):
    spec = os.environ.get("PV_XMLSEC_FAULTS")
    if not spec:
        return None
    spec = json.loads(spec)
    cpath = spec["counter"]
    try:
        n = int(_read(cpath) or b"0")
    except (OSError, ValueError):
        n = 0
    _write(cpath, str(n + 1).encode())
    sched = spec.get("schedule", {})
    only = spec.get("only_cmd")
    if only and ("--" + only) not in argv:
        return None
    return sched.get(str(n), sched.get("*"))


LAST_MODE = None


def run(argv):
    """returns (returncode, stdout bytes, stderr bytes); negative rc = killed by signal"""
    a = parse_args(argv)
    if a["cmd"] == "version":
        return 0, b"xmlsec1 1.2.37 (stand-in)\n", b""
    if a["cmd"] == "list-transforms":
        return 0, ("Registered transforms klasses:\n" + TRANSFORMS + "\n").encode(), b""
    mode = _fault(argv)
    global LAST_MODE
    LAST_MODE = mode
    out_path = a.get("output")
    if mode:
        if mode == "not_startable":
            raise FileNotFoundError(2, "No such file or directory (injected)")
        # each mode: (write real result?, rc, stdout, stderr)
        if mode == "exit1_silent":
            return 1, b"", b""
        if mode == "exit1_fail":
            return 1, b"", b"FAIL\n"
        if mode == "signal":
            return -9, b"", b""
        if mode == "signal_after_ok":
            return -11, b"", b"OK\n"
        if mode == "empty":
            return 0, b"", b""
        if mode == "ok_inside_text":
            return 0, b"", b"everything is OK here\nnot OK\nOKAY\n OK \n"
        if mode == "lowercase_ok":
            return 0, b"", b"ok\n"
        if mode == "ok_on_stdout":
            return 0, b"OK\n", b""
        if mode == "garbled":
            return 0, b"\xff\xfe\x00garbage", b"\xff\xfeOK\xff"
        if mode == "truncated":
            return 0, b"", b"O"
        if mode == "fail_then_ok":
            return 0, b"", b"FAIL\nOK\n"
        if mode == "no_output_file":
            # claims nothing, writes nothing
            return 0, b"", b""
        if mode == "noise_on_stdout":
            pass  # handled below: real result but noise on stdout
    try:
        rc, so, se = {"sign": do_sign, "verify": do_verify, "encrypt": do_encrypt,
                      "decrypt": do_decrypt}[a["cmd"]](a)
    except Fail as e:
        return 1, b"", ("FAIL\nError: %s\n" % e).encode()
    except Exception as e:  # malformed xml etc.
        return 1, b"", ("FAIL\nError: %s: %s\n" % (type(e).__name__, e)).encode()
    if mode == "noise_on_stdout":
        so = b"warning: something\n"
    if mode == "truncated_output" and out_path:
        data = _read(out_path)
        _write(out_path, b"")
    return rc, so, se


class FakePopen(object):
    """in-process replacement for subprocess.Popen as used by sigver/algsupport"""
    calls = []
    log = []

    def __init__(self, argv, stderr=None, stdout=None, **kw):
        FakePopen.calls.append(list(argv))
        global LAST_MODE
        LAST_MODE = None
        try:
            self.returncode, self._out, self._err = run(list(argv))
        except OSError:
            FakePopen.log.append(dict(argv=list(argv), mode=LAST_MODE, rc=None, err=None))
            raise
        FakePopen.log.append(dict(argv=list(argv), mode=LAST_MODE, rc=self.returncode, err=self._err))

    def communicate(self):
        return self._out, self._err


def main():
    try:
        rc, so, se = run(sys.argv)
    except OSError:
        rc, so, se = 127, b"", b"cannot execute\n"
    sys.stdout.buffer.write(so)
    sys.stderr.buffer.write(se)
    sys.stdout.flush()
    sys.stderr.flush()
    if rc < 0:
        import signal
        os.kill(os.getpid(), -rc)
    sys.exit(rc)


if __name__ == "__main__":
    main()
