"""C20 histories: what a FAILED tool operation leaves behind on long-lived objects.

  store_history  : random histories of load / imp on ONE MetadataStore with a SCRIPTED tool (any result) vs
                   Model.MdStoreLoad.run_history (store = list key -> document), plus the oracle "no success reported =>
                   the store serves exactly what it served before"
  store_faults   : fault mode x API (load old style with cert=, imp old style, imp new style, imp with a good source first,
                   imp file) x same key / new key on the metadata store of ONE long-lived SP, the application catching the
                   exception; afterwards: same entities / certificates / endpoints / sources, and a message signed with the
                   key only the rejected document names is refused
  sp_history / idp_history : failed verification / decryption followed by further calls on the same object
"""
import base64
import json
import os

import env
import resp
import xmlsec_core
from core import Exn, cstr, cbool, clist
from saml2_tophat import md, sigver, saml, samlp, class_name, BINDING_HTTP_POST
from saml2_tophat.config import IdPConfig
from saml2_tophat.metadata import entities_descriptor

IDP3_ID = "https://idp3.example.org/idp"
IDP4_ID = "https://idp4.example.org/idp"
EXTERN = "saml2_tophat.mdstore.MetaDataExtern"
FILECLS = "saml2_tophat.mdstore.MetaDataFile"
U1, U2, U3 = "http://md.example.org/fed1", "http://md.example.org/fed2", "http://md.example.org/fed3"


def _call(f, *a, **k):
    try:
        return f(*a, **k)
    except Exception as e:  # noqa
        return Exn("OSError" if isinstance(e, OSError) else type(e).__name__)


def _entity(entity_id, certname, sso):
    ed = md.entity_descriptor_from_string(env.cached_md("idp", env.idp_conf(), IdPConfig))
    ed.entity_id = entity_id
    d = ed.idpsso_descriptor[0]
    d.key_descriptor = d.key_descriptor[:1]
    d.key_descriptor[0].use = "signing"
    d.key_descriptor[0].key_info.x509_data[0].x509_certificate.text = env.cert_b64(certname)
    d.single_sign_on_service[0].location = sso
    return ed


_docs = {}


def docs():
    """name -> (xml, content) ; content = sorted [(entity, certname, sso)]"""
    if _docs:
        return _docs
    env.tool_inprocess(True)
    spec = {
        "A": ("md-A", [(env.IDP2_ID, "idp2", "https://idp2.example.org/sso")], "md"),
        "A2": ("md-A2", [(env.IDP2_ID, "idp2", "https://idp2.example.org/sso-v2"), (IDP4_ID, "idp2", "https://idp4.example.org/sso")], "md"),
        # the rogue document: names key `other` for a known entity and for a new one; correctly signed (only the tool's
        # failure stands between it and the store), signed with the wrong key, unsigned
        "B": ("md-B", [(env.IDP2_ID, "other", "https://evil.example.org/sso"), (IDP3_ID, "other", "https://evil.example.org/sso3")], "md"),
        "Bw": ("md-B", [(env.IDP2_ID, "other", "https://evil.example.org/sso"), (IDP3_ID, "other", "https://evil.example.org/sso3")], "other"),
        "U": ("md-U", [(IDP4_ID, "idp", "https://idp4.example.org/sso-u")], None),
    }
    for name, (ident, ents, k) in spec.items():
        e_, x = entities_descriptor([_entity(*e) for e in ents], 0, "fed", ident, bool(k), resp.signer(k) if k else None)
        if x is None:
            x = str(e_)
        _docs[name] = (x, sorted(ents))
    # tampered after signing
    x = _docs["B"][0].replace("https://evil.example.org/sso3", "https://evil.example.net/sso3")
    _docs["Bt"] = (x, sorted([(env.IDP2_ID, "other", "https://evil.example.org/sso"), (IDP3_ID, "other", "https://evil.example.net/sso3")]))
    return _docs


class Http(object):
    def __init__(self):
        self.at = {}

    def send(self, url, **kw):
        txt = self.at[url]

        class R(object):
            status_code = 200
            content = txt
            text = txt
        return R()


_cert_names = {}


def _cname(c):
    if not _cert_names:
        for n in ("idp", "idp2", "other", "md", "sp", "sp2"):
            _cert_names["".join(env.cert_b64(n).split())] = n
    if isinstance(c, tuple):
        c = c[1]
    body = "".join(l for l in c.strip().split("\n") if not l.startswith("-----"))
    return _cert_names.get("".join(body.split()), body[:16])


def _sso(m, e):
    r = _call(lambda: m.service(e, "idpsso_descriptor", "single_sign_on_service"))
    if isinstance(r, Exn) or not r:
        return []
    out = []
    for v in (r.values() if isinstance(r, dict) else [r]):
        out += [x["location"] for x in v]
    return sorted(out)


def facts(mds):
    """everything the store serves, as a set of facts (public query API only)"""
    f = set()
    for pos, (k, s) in enumerate(mds.metadata.items()):
        f.add(("source", str(k)))
        for e in s.keys():
            f.add(("source-entity", str(k), e))
            for c in _call(lambda: s.certs(e, "any", "signing")) or []:
                f.add(("source-cert", str(k), e, _cname(c)))
            for loc in _sso(s, e):
                f.add(("source-sso", str(k), e, loc))
    for e in set(mds.keys()):
        f.add(("serves-entity", e))
        cs = _call(lambda: mds.certs(e, "any", "signing"))
        for c in ([] if isinstance(cs, Exn) else cs):
            f.add(("serves-cert", e, _cname(c)))
        for loc in _sso(mds, e):
            f.add(("serves-sso", e, loc))
    return f


def listing(mds):
    """[(key, document class)] in store order, documents recognised by content"""
    out = []
    for k, s in mds.metadata.items():
        content = sorted((e, ([_cname(c) for c in s.certs(e, "any", "signing")] or ["?"])[0], (_sso(s, e) or ["?"])[0]) for e in s.keys())
        name = "?"
        for n, (_, c) in docs().items():
            if c == content:
                name = {"Bw": "B"}.get(n, n)
                break
        out.append([str(k), name])
    return out


# ---------------------------------------------------------------------------
APIS = ["load-remote", "imp-dict-remote", "imp-class-extern", "imp-class-extern-after-good", "imp-class-file"]


def do_load(mds, api, url, certfile, good_url=None, filename=None):
    if api == "load-remote":
        return mds.load("remote", url=url, cert=certfile)
    if api == "imp-dict-remote":
        return mds.imp({"remote": [{"url": url, "cert": certfile}]})
    if api == "imp-class-extern":
        return mds.imp([{"class": EXTERN, "metadata": [(url, certfile)]}])
    if api == "imp-class-extern-after-good":
        return mds.imp([{"class": EXTERN, "metadata": [(good_url, certfile), (url, certfile)]}])
    if api == "imp-class-file":
        return mds.imp([{"class": FILECLS, "metadata": [(filename, certfile)]}])
    raise ValueError(api)


class Faults(object):
    def __init__(self, work, schedule, only_cmd=None):
        self.spec = {"counter": work + "/counter-hist", "schedule": schedule}
        if only_cmd:
            self.spec["only_cmd"] = only_cmd
        os.makedirs(work, exist_ok=True)

    def __enter__(self):
        with open(self.spec["counter"], "w") as fh:
            fh.write("0")
        os.environ["PV_XMLSEC_FAULTS"] = json.dumps(self.spec)
        import xmlsec_core
        xmlsec_core.FakePopen.log = []
        return self

    def __exit__(self, *a):
        os.environ.pop("PV_XMLSEC_FAULTS", None)


def _msg(issuer, keyname, rid, subject="subject-1", given="Anna", irt="req-1"):
    return resp.build(resp.default_response(id=rid, issuer=issuer, sign=keyname, in_response_to=irt, assertions=[
        resp.default_assertion(id="a-" + rid, issuer=issuer, name_id=subject, attributes={"urn:oid:2.5.4.42": [given]},
                               confirmations=[{"method": saml.SCM_BEARER, "in_response_to": irt, "recipient": env.SP_ACS_POST,
                                               "not_on_or_after": env.ts(env.NOW + 300), "not_before": None, "address": None}])]))


def _post(sp, xml, outstanding):
    """the SP's public entry point with the caller's OWN long-lived outstanding-query table (not a copy)"""
    return sp.parse_authn_request_response(base64.b64encode(xml.encode("utf-8")).decode("ascii"), BINDING_HTTP_POST, outstanding)


def _accepted(sp, xml, outstanding=None):
    if outstanding is None:
        r = _call(lambda: resp.post(sp, xml))
    else:
        r = _call(lambda: _post(sp, xml, outstanding))
    if isinstance(r, Exn) or r is None:
        return None
    return [r.name_id.text if r.name_id is not None else None, sorted((k, sorted(v)) for k, v in (r.ava or {}).items())]


def _idp_md_other():
    """the IdP's metadata naming key `other` (only for the self-check of the forged probe)"""
    return str(_entity(env.IDP_ID, "other", env.IDP_SSO))


def _fresh_store_sp(http):
    sp = env.make_sp(sp={"want_response_signed": True})
    sp.metadata.http = http
    return sp


def unit_store_faults(ctx, MODES, work):
    """fault mode x API x key on the store of one long-lived SP"""
    D = docs()
    env.tool_inprocess(True)
    md_cert = env.cert("md")
    m3 = _msg(IDP3_ID, "other", "r-x3")          # issuer only the rogue document names
    m2 = _msg(env.IDP2_ID, "other", "r-x2")       # known issuer, key only the rogue document names
    m2good = _msg(env.IDP2_ID, "idp2", "r-g2", subject="subject-good", given="Gina")
    fpath = work + "/rogue-md.xml"
    os.makedirs(work, exist_ok=True)

    def build():
        http = Http()
        sp = _fresh_store_sp(http)
        http.at[U1] = D["A"][0]
        sp.metadata.load("remote", url=U1, cert=md_cert)
        return sp, http

    # harness self-check (sensitivity): had the rogue document been registered, the messages WOULD be accepted
    sp0, http0 = build()
    http0.at[U1] = D["B"][0]
    sp0.metadata.load("remote", url=U1, cert=md_cert)
    if not (_accepted(sp0, m3) and _accepted(sp0, m2)) or _accepted(sp0, m2good):
        raise RuntimeError("c20_hist self-check: messages under the rogue document's key are not accepted by a store that registered it")

    sp, http = build()
    if not _accepted(sp, m2good) or _accepted(sp, m2) or _accepted(sp, m3):
        raise RuntimeError("c20_hist self-check: baseline store does not behave as expected")
    good_now = "A"
    total = 0
    cases = [(m, "B") for m in MODES] + [(None, "Bw"), (None, "Bt")]
    for api in APIS:
        for keyvar in ("same-key", "new-key"):
            if api == "imp-class-file" and keyvar == "same-key":
                continue
            for mode, docname in cases:
                label = "%s:%s:%s" % (api, keyvar, mode or {"Bw": "bad-signature", "Bt": "tampered"}[docname])
                # every 7th step the application refreshes the good source successfully (A <-> A2): real state changes in the history
                if total % 7 == 3:
                    good_now = "A2" if good_now == "A" else "A"
                    http.at[U1] = D[good_now][0]
                    sp.metadata.load("remote", url=U1, cert=md_cert)
                    if [U1, good_now] not in listing(sp.metadata):
                        ctx.oracle_fail("successful-reload-not-served:%s" % good_now, "a verified re-load of %s is not what the store serves: %s"
                                        % (U1, listing(sp.metadata)), {"unit": "store_faults", "step": total})
                before = facts(sp.metadata)
                url = U1 if keyvar == "same-key" else U2
                http.at[U1] = D[good_now][0]
                good_url = U1
                http.at[url] = D[docname][0]
                with open(fpath, "w") as fh:
                    fh.write(D[docname][0])
                if api == "imp-class-extern-after-good":
                    if keyvar == "same-key":
                        # first pair: re-load of the good document under U1 (succeeds: invocation 0), second: the rogue one
                        # under the SAME key again -> needs two different texts for one url: serve the rogue text on 2nd GET
                        seq = [D[good_now][0], D[docname][0]]

                        class H2(Http):
                            def send(self, u, **kw):
                                if u == U1 and seq:
                                    self.at[U1] = seq.pop(0)
                                return Http.send(self, u, **kw)
                        h2 = H2()
                        h2.at = dict(http.at)
                        sp.metadata.http = h2
                        good_url = U1
                    sched = {"1": mode} if mode else {}
                else:
                    sched = {"*": mode} if mode else {}
                with Faults(work, sched):
                    got = _call(do_load, sp.metadata, api, url, md_cert, good_url=good_url, filename=fpath)
                sp.metadata.http = http
                http.at[U1] = D[good_now][0]
                total += 1
                ctx.nontriv(("store_faults", label))
                ctx.count("store_faults:%s:%s" % (api, got.name if isinstance(got, Exn) else "returned"))
                after = facts(sp.metadata)
                left, lost = sorted(after - before), sorted(before - after)
                rp = {"unit": "store_faults", "api": api, "key": keyvar, "mode": mode, "document": docname}
                bad = False
                if not isinstance(got, Exn):
                    bad = True
                    ctx.oracle_fail("failed-load-reported-success:" + label, "%s returned normally although the metadata signature could not be verified" % api, rp)
                if left:
                    bad = True
                    ctx.oracle_fail("failed-load-left-entities:" + label,
                                    "after the failed %s (%s) the store serves things it did not serve before: %s" % (api, got, left[:6]), rp)
                if lost:
                    bad = True
                    ctx.oracle_fail("failed-load-replaced-verified-source:" + label,
                                    "after the failed %s (%s) the store no longer serves: %s" % (api, got, lost[:6]), rp)
                for who, m in (("new-issuer", m3), ("known-issuer", m2)):
                    acc = _accepted(sp, m)
                    if acc:
                        bad = True
                        ctx.oracle_fail("accepted-under-key-from-rejected-document:%s:%s" % (who, label),
                                        "after the failed %s a response signed with the key only the rejected document names was accepted: %s" % (api, acc), rp)
                if total % 5 == 0 and not _accepted(sp, m2good):
                    bad = True
                    ctx.oracle_fail("verified-source-no-longer-usable:" + label,
                                    "after the failed %s a response under the previously verified source's key is refused" % api, rp)
                if total % 40 == 1:
                    ctx.sample(dict(unit="store_faults", api=api, key=keyvar, mode=mode, document=docname, outcome=got,
                                    store_after=listing(sp.metadata)))
                if bad:      # continue the enumeration from a clean object
                    sp, http = build()
                    good_now = "A"
    ctx.unit("store_fault_histories", cases=total, disagreements=0)
    ctx.evaluations += total


# ---------------------------------------------------------------------------
def unit_store_history(ctx, Scripted, gen_tool, coq_tool, reports_success, show_tool):
    """random histories on one store with a scripted tool: model correspondence + unchanged-after-failure oracle"""
    D = docs()
    env.tool_inprocess(True)
    md_cert = env.cert("md")
    keys = [U1, U2, U3]
    kidx = {U1: 1, U2: 2, U3: 3}
    didx = {"A": 1, "A2": 2, "B": 3, "U": 4}
    nh = 40 if ctx.quick else 400
    cases = []
    old = sigver.Popen
    try:
        for h in range(nh):
            http = Http()
            sp = _fresh_store_sp(http)
            mds = sp.metadata
            ops = []
            shown = []
            for step in range(ctx.rng.randint(3, 9)):
                url = ctx.rng.choice(keys)
                docname = ctx.rng.choice(["A", "A2", "B", "B", "U"])
                api = ctx.rng.choice(APIS[:3])
                has_cert = ctx.rng.random() < 0.85
                r = gen_tool(ctx.rng)
                if ctx.rng.random() < 0.35:
                    r = {"kind": "ran", "rc": 0, "out": b"", "err": b"OK\n", "outfile": None}
                http.at[url] = D[docname][0]
                before = facts(mds)
                lbefore = listing(mds)
                sigver.Popen = Scripted
                Scripted.script = [dict(r)]
                try:
                    got = _call(do_load, mds, api, url, md_cert if has_cert else "")
                finally:
                    sigver.Popen = old
                signed = docname != "U"
                ops.append("(%d, %d, %s, %s, %s)" % (kidx[url], didx[docname], cbool(signed), cbool(has_cert), coq_tool(r)))
                shown.append({"api": api, "key": url, "document": docname, "cert": has_cert, "tool": show_tool(r),
                              "outcome": got.name if isinstance(got, Exn) else "loaded"})
                ctx.count("store_history:%s" % (got.name if isinstance(got, Exn) else "loaded"))
                must_verify = signed and has_cert
                if must_verify and not reports_success(r):
                    after = facts(mds)
                    rp = {"unit": "store_history", "history": shown}
                    label = "%s:scripted" % api
                    if not isinstance(got, Exn):
                        ctx.oracle_fail("failed-load-reported-success:" + label, "load returned normally although the tool did not report success", rp)
                    if after - before:
                        ctx.oracle_fail("failed-load-left-entities:" + label, "store serves more after a failed load: %s" % sorted(after - before)[:6], rp)
                    if before - after:
                        ctx.oracle_fail("failed-load-replaced-verified-source:" + label, "store serves less after a failed load: %s" % sorted(before - after)[:6], rp)
                    ctx.nontriv(("store_history", h, step))
            impl = [[kidx[k], didx.get(n, 0)] for k, n in listing(mds) if k in kidx]
            cases.append(dict(id=h, coq="[%s]" % "; ".join(ops), impl=impl, show=shown))
            if h < 2:
                ctx.sample(dict(unit="store_history", history=shown, store=listing(mds)))
    finally:
        sigver.Popen = old
        env.tool_inprocess(True)
    ctx.correspond("store_history", "Model.MdStoreLoad", "fun ops => show_store (run_history ops [])",
                   "(list (N * N * bool * bool * tool_result))", cases, shard=20)


# ---------------------------------------------------------------------------
def _sp_state(sp):
    """session cache of the client, canonical"""
    out = []
    try:
        db = sp.users.cache._db
        for subj in sorted(db.keys(), key=str):
            ents = db[subj]
            out.append([str(subj), sorted(str(e) for e in ents.keys())])
    except AttributeError:
        out = sorted(str(s) for s in sp.users.subjects())
    return out


def unit_sp_history(ctx, MODES, work):
    """one long-lived SP (response and assertions must be signed) and one long-lived IdP: good call, FAILED call under a tool
    fault, then further calls without fault - the failed call must not have left anything that influences them"""
    env.tool_inprocess(True)
    total = 0
    with env.Clock(env.NOW):
        sps = [("both", env.make_sp(sp={"want_response_signed": True, "want_assertions_signed": True})),
               ("either", env.make_sp(sp={"want_assertions_or_response_signed": True}))]
        sp_enc = env.make_sp()
        idp = env.make_idp()
        authn = {"class_ref": resp.PASSWORD, "authn_auth": "x"}

        def signed_both(rid, subject, given, irt, key="idp"):
            return resp.build(resp.default_response(id=rid, sign=key, in_response_to=irt, assertions=[
                resp.default_assertion(id="a-" + rid, sign=key, name_id=subject, attributes={"urn:oid:2.5.4.42": [given]},
                                       confirmations=[{"method": saml.SCM_BEARER, "in_response_to": irt, "recipient": env.SP_ACS_POST,
                                                       "not_on_or_after": env.ts(env.NOW + 300), "not_before": None, "address": None}])]))
        good1 = signed_both("r-h1", "subject-h1", "Hanna", "req-1")
        victim = signed_both("r-h2", "subject-h2", "Mallory", "req-2")
        forged = signed_both("r-h3", "subject-h3", "Eve", "req-3", key="other")
        unsigned = signed_both("r-h4", "subject-h4", "Nina", "req-3", key=False)
        if not _accepted(env.make_sp(), unsigned, {"req-3": "/three"}) or not _accepted(env.make_sp(idp_md=[_idp_md_other()]), forged, {"req-3": "/three"}):
            raise RuntimeError("c20_hist self-check: the unsigned / forged probe responses are refused for reasons other than their signatures")
        good5 = signed_both("r-h5", "subject-h5", "Greta", "req-5")

        def enc_for(user, given):
            return str(idp.create_authn_response({"givenName": [given]}, in_response_to="req-1", destination=env.SP_ACS_POST,
                                                 sp_entity_id=env.SP_ID, userid=user, authn=authn, encrypt_assertion=True))
        for mode in MODES:
            for pos in ("first", "second", "every"):
                sched = {"first": {"0": mode}, "second": {"1": mode}, "every": {"*": mode}}[pos]
                for spname, sp in sps:
                    label = "%s:%s:%s" % (spname, mode, pos)
                    rp = {"unit": "sp_history", "sp": spname, "mode": mode, "pos": pos}
                    outstanding = {"req-1": "/one", "req-2": "/two", "req-3": "/three", "req-5": "/five"}
                    a1 = _accepted(sp, good1, outstanding)
                    st0 = _sp_state(sp)
                    out0 = dict(outstanding)
                    with Faults(work, sched):
                        av = _call(lambda: _post(sp, victim, outstanding))
                        faulted = any(e["mode"] for e in xmlsec_core.FakePopen.log)
                    total += 1
                    failed = isinstance(av, Exn) or av is None
                    ctx.nontriv(("sp_history", label))
                    ctx.count("sp_history:%s" % ("failed-call" if failed else "call-succeeded"))
                    if not a1:
                        ctx.oracle_fail("good-response-refused-after-failures:" + label, "a valid response is refused on the long-lived SP", rp)
                    if failed:
                        st1 = _sp_state(sp)
                        if st1 != st0:
                            ctx.oracle_fail("failed-verify-left-session:" + label,
                                            "session cache changed by a response whose verification failed: %s -> %s" % (st0, st1), rp)
                        if outstanding != out0:
                            ctx.oracle_fail("failed-verify-changed-outstanding:" + label, "outstanding-query table changed by a failed call", rp)
                    elif faulted and pos == "every":
                        ctx.oracle_fail("history:accepted-with-every-invocation-failing:" + label, "response accepted although every tool run failed", rp)
                    # next calls, no fault
                    for name, m in (("forged", forged), ("unsigned", unsigned)):
                        acc = _accepted(sp, m, outstanding)
                        if acc:
                            ctx.oracle_fail("after-failed-call-accepted:%s:%s" % (name, label),
                                            "after a failed call the SP accepted a %s response: %s" % (name, acc), rp)
                    a5 = _accepted(sp, good5, outstanding)
                    if not a5 or a5[0] != "subject-h5" or a5[1] != [("givenName", ["Greta"])] and a5[1] != [("urn:oid:2.5.4.42", ["Greta"])]:
                        ctx.oracle_fail("after-failed-call-wrong-identity:" + label,
                                        "the valid response after a failed call yields %s (expected subject-h5 / Greta)" % (a5,), rp)
                label = "%s:%s" % (mode, pos)
                rp = {"unit": "sp_history", "mode": mode, "pos": pos}
                # decryption: failed decryption of Mallory's response, then Greta's: the identity must be Greta's own
                e_v, e_g = enc_for("mallory", "Mallory"), enc_for("greta", "Greta")
                with Faults(work, sched, only_cmd="decrypt"):
                    dv = _call(lambda: resp.post(sp_enc, e_v))
                    dec_failed = not any("--decrypt" in e["argv"] and e["mode"] is None and e["rc"] == 0 for e in xmlsec_core.FakePopen.log)
                total += 1
                if dec_failed and not isinstance(dv, Exn) and dv is not None and (dv.name_id is not None or dv.ava):
                    ctx.oracle_fail("history:identity-from-failed-decryption:" + label, "identity %s although decryption failed" % (dv.ava,), rp)
                dg = _call(lambda: resp.post(sp_enc, e_g))
                idg = None if isinstance(dg, Exn) or dg is None else sorted((k, sorted(v)) for k, v in (dg.ava or {}).items())
                if idg != [("givenName", ["Greta"])]:
                    ctx.oracle_fail("after-failed-decryption-wrong-identity:" + label,
                                    "the response decrypted after a failed decryption yields %s (expected Greta's)" % (idg if idg is not None else dg,), rp)
                if dec_failed and "mallory" in json.dumps(_sp_state(sp_enc)).lower():
                    ctx.oracle_fail("failed-decryption-left-session:" + label, "session cache holds the user of the undecrypted response", rp)
        # IdP: signed request under fault, then a forged one and a good one
        def rq(rid, key):
            r = samlp.AuthnRequest(id=rid, version="2.0", issue_instant=env.ts(env.NOW), issuer=saml.Issuer(text=env.SP_ID),
                                   assertion_consumer_service_url=env.SP_ACS_POST)
            r.signature = sigver.pre_signature_part(rid, env.cert_b64(key))
            x = resp.signer(key).sign_statement(str(r), class_name(r), node_id=rid)
            return base64.b64encode(x.encode()).decode()
        rq_v, rq_f, rq_g = rq("rq-v", "sp"), rq("rq-f", "other"), rq("rq-g", "sp")
        for mode in MODES:
            with Faults(work, {"*": mode}):
                v = _call(lambda: idp.parse_authn_request(rq_v, BINDING_HTTP_POST))
            total += 1
            ctx.nontriv(("idp_history", mode))
            rp = {"unit": "idp_history", "mode": mode}
            if not (isinstance(v, Exn) or v is None):
                ctx.oracle_fail("history:request-accepted-with-tool-failing:" + mode, "signed request accepted although the tool failed", rp)
            f = _call(lambda: idp.parse_authn_request(rq_f, BINDING_HTTP_POST))
            if not (isinstance(f, Exn) or f is None):
                ctx.oracle_fail("after-failed-call-accepted:forged-request:" + mode, "after a failed verification the IdP accepted a request signed with a foreign key", rp)
            g = _call(lambda: idp.parse_authn_request(rq_g, BINDING_HTTP_POST))
            if isinstance(g, Exn) or g is None or g.message.id != "rq-g":
                ctx.oracle_fail("after-failed-call-wrong-request:" + mode, "the valid request after a failed one yields %s" % (g,), rp)
    ctx.unit("sp_idp_fault_histories", cases=total, disagreements=0)
    ctx.evaluations += total
