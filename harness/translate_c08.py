"""Translator for C08: regenerate coq/Gen/AttrMaps.v from /repo's working tree.

  attr_maps  : the raw MAP dictionaries of saml2_tophat.attributemaps, in the
               order attribute_converter.ac_factory() turns them into
               converters (attributemaps.__all__ order, module dict order):
               (identifier, to-items, fro-items) with the keys AS WRITTEN in
               the module (the model applies from_dict's lower-casing itself)
  py_space   : every code point c with chr(c).isspace()  (what str.strip removes)
  constants the conversion code branches on (as the modules themselves see them)

Fail-closed: an unexpected shape raises -> broken obligation."""
import importlib

from core import COQ, cstr, write_if_changed, REPO

HDR = ("(* GENERATED from /repo by harness/translate_c08.py on every run - do not edit *)\n"
       "From PV Require Import Lib.Base.\nOpen Scope N_scope.\n\n")


def _mod(name):
    m = importlib.import_module(name)
    assert m.__file__.startswith(REPO + "/src/"), m.__file__
    return m


def raw_maps():
    """[(module name, identifier, [(k, v)] to, [(k, v)] fro)] in ac_factory order"""
    am = _mod("saml2_tophat.attributemaps")
    names = list(am.__all__)
    out = []
    for typ in names:
        mod = _mod("saml2_tophat.attributemaps.%s" % typ)
        for key, item in mod.__dict__.items():
            if key.startswith("__"):
                continue
            if isinstance(item, dict) and "to" in item and "fro" in item:
                ident = item["identifier"]
                if not isinstance(ident, str):
                    raise TypeError("%s.%s: identifier is not a string" % (typ, key))
                for side in ("to", "fro"):
                    if not isinstance(item[side], dict) or not all(
                            isinstance(k, str) and isinstance(v, str) for k, v in item[side].items()):
                        raise TypeError("%s.%s[%s] is not a str->str dict" % (typ, key, side))
                out.append((typ, ident, list(item["to"].items()), list(item["fro"].items())))
    if not out:
        raise ValueError("no attribute maps found")
    return out


def _pairs(ps):
    return "[" + ";\n     ".join("(%s, %s)" % (cstr(k), cstr(v)) for k, v in ps) + "]"


def regen_attrmaps():
    maps = raw_maps()
    ac = _mod("saml2_tophat.attribute_converter")
    saml = _mod("saml2_tophat.saml")
    assertion = _mod("saml2_tophat.assertion")
    body = []
    for typ, ident, to, fro in maps:
        body.append("Definition map_%s_to : list (str * str) :=\n    %s.\n" % (typ, _pairs(to)))
        body.append("Definition map_%s_fro : list (str * str) :=\n    %s.\n" % (typ, _pairs(fro)))
    body.append("(* (identifier, to, fro) in ac_factory order *)\n"
                "Definition attr_maps : list (str * list (str * str) * list (str * str)) :=\n  [" +
                ";\n   ".join("(%s, map_%s_to, map_%s_fro)" % (cstr(ident), typ, typ) for typ, ident, _, _ in maps) + "].\n")
    body.append("Definition attr_map_names : list str := [" + "; ".join(cstr(t) for t, _, _, _ in maps) + "].\n")
    spaces = [c for c in range(0x110000) if chr(c).isspace()]
    body.append("(* code points with str.isspace() : what str.strip() removes at both ends *)\n"
                "Definition py_space : list N := [" + "; ".join(str(c) for c in spaces) + "]%N.\n")
    consts = [
        ("NAME_FORMAT_UNSPECIFIED", ac.NAME_FORMAT_UNSPECIFIED),      # what list_to_local compares with
        ("NAMEID_FORMAT_PERSISTENT", ac.NAMEID_FORMAT_PERSISTENT),    # what to_() puts on eduPersonTargetedID values
        ("SAML_NAMESPACE", ac.NAMESPACE),
        ("NAME_FORMAT_URI", assertion.NAME_FORMAT_URI),               # Policy.get_name_form default
        ("XSI_TYPE", saml.XSI_TYPE), ("XSI_NIL", saml.XSI_NIL), ("XS_NAMESPACE", saml.XS_NAMESPACE),
        ("SCM_BEARER", saml.SCM_BEARER),
    ]
    for n, v in consts:
        if not isinstance(v, str):
            raise TypeError("%s is not a string" % n)
        body.append("Definition %s : str := %s.\n" % (n, cstr(v)))
    return write_if_changed(COQ + "/Gen/AttrMaps.v", HDR + "\n".join(body))


if __name__ == "__main__":
    print(regen_attrmaps())
