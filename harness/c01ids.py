"""C01 - the identifier itself: three readers must mean the same string.

  * pysaml2's object takes `.id` from the parsed attribute table (SamlBase.c_attributes['ID']),
  * the pre-check sigver._enveloped_signature_ok and the tool (`--id-attr:ID`) look at the literal `ID`
    attribute of the text,
  * the tool is started at the element named by `--node-id`.

Two document families and one recorder:

  identifier_differentials  (a) forged elements that carry a look-alike of the ID attribute whose VALUE is the
        genuine element's identifier - namespace-qualified in the element's own namespace (saml:ID on Assertion,
        samlp:ID on Response), in a foreign namespace, xml:id, Id, id - next to a literal ID with another value (or
        with no literal ID at all), the genuine signed element nested inside (Advice / Extensions).  Any reading of
        the look-alike as THE identifier makes object and text disagree.
  tool_side_normalisation   (b) the forged element's literal ID is the genuine ID padded with white space / in the
        other case / a compatibility form, its OWN first Signature child is a worthless one whose single Reference is
        '#'+that literal ID (a pre-check on the raw ID passes), the genuine signed element is nested BEHIND that
        signature: a tool told a trimmed / case-folded / normalised id starts at the genuine nested element.
  Recorder                  records the argv (and the document octets) the library really hands to the tool and the
        arguments the pre-check really gets; `audit` states the composition obligations on them.
"""
import copy
import unicodedata
import xml.etree.ElementTree as ET

import xswdoc
import xmlsec_core
from xswdoc import ASSERTION, RESPONSE, SIG, SAML, SAMLP, DS
from saml2_tophat import sigver

XMLNS = "http://www.w3.org/XML/1998/namespace"


def _reattr(el, first, rest_without=("ID",)):
    """rebuild el's attribute table: `first` (list of pairs, in that order) then the old ones"""
    old = [(k, v) for k, v in el.attrib.items() if k not in rest_without and k not in [p[0] for p in first]]
    el.attrib.clear()
    for k, v in first + old:
        el.set(k, v)


def _targets(level):
    return {"response": ["response"], "assertion": ["assertion"], "both": ["response", "assertion"]}[level]


def spellings(target):
    own = SAML if target == "assertion" else SAMLP
    foreign = SAMLP if target == "assertion" else SAML
    return [("own-namespace-ID", "{%s}ID" % own), ("foreign-namespace-ID", "{%s}ID" % foreign), ("ds-namespace-Id", "{%s}Id" % DS),
            ("xml-id", "{%s}id" % XMLNS), ("Id", "Id"), ("id", "id"), ("iD", "iD")]


def _place(f, twin, target, genuine_el, own_sig, where):
    """nest the genuine signed element inside the forged twin (Advice / Extensions) and give the twin `own_sig`
    (or none) as a direct child; where = nested-first | nested-behind-signature"""
    holder = ET.Element("{%s}Advice" % SAML if target == "assertion" else "{%s}Extensions" % SAMLP)
    holder.append(genuine_el)
    if where == "nested-first":
        twin.insert(0, holder)
        if own_sig is not None:
            twin.insert(2, own_sig)                # holder, Issuer, Signature
    else:
        if own_sig is not None:
            twin.insert(1, own_sig)                # Issuer, Signature, holder
            twin.insert(2, holder)
        else:
            twin.insert(1, holder)


def identifier_differentials(orig_xml, level, rng=None, thin=False):
    """class (a): (name, xml)"""
    out = []
    for target in _targets(level):
        for sname, key in spellings(target):
            for lit, order in (("evil", "look-alike-first"), ("evil", "literal-first"), (None, "no-literal-ID")):
                for sigkind in ("copy", "decoy"):
                    for where in ("nested-first", "nested-behind-signature"):
                        oc = ET.fromstring(orig_xml)
                        gen = oc if target == "response" else oc.find(ASSERTION)
                        gsig = gen.find(SIG) if gen is not None else None
                        if gsig is None:
                            continue
                        gid = gen.get("ID")
                        litid = None if lit is None else ("r-evil" if target == "response" else "a-evil")
                        f = xswdoc.forged_doc()
                        twin = f if target == "response" else f.find(ASSERTION)
                        pairs = [(key, gid)]
                        if litid is not None:
                            pairs = pairs + [("ID", litid)] if order == "look-alike-first" else [("ID", litid)] + pairs
                        _reattr(twin, pairs)
                        own = copy.deepcopy(gsig) if sigkind == "copy" else xswdoc.decoy_signature(gsig, litid or gid)
                        _place(f, twin, target, gen, own, where)
                        out.append(("id-look-alike:%s:%s:%s:own-signature-%s:%s" % (target, sname, order, sigkind, where),
                                    ET.tostring(f, encoding="unicode")))
    if thin and rng is not None:
        # every target x spelling x order stays; the signature kind / position pair is drawn (thin == "partly": the
        # own-namespace and xml:id spellings keep all four pairs)
        groups = {}
        for n, x in out:
            groups.setdefault(tuple(n.split(":")[:4]), []).append((n, x))
        res = []
        for k, g in sorted(groups.items()):
            if thin == "partly" and k[2] in ("own-namespace-ID", "xml-id"):
                res += g
            else:
                res.append(rng.choice(g))
        out = res
    return out


def fullwidth(v):
    """a string that is not v but whose NFKC form is v (last ASCII digit/letter replaced by its full-width form)"""
    for i in range(len(v) - 1, -1, -1):
        if v[i].isalnum() and ord(v[i]) < 128:
            w = v[:i] + chr(ord(v[i]) + 0xFEE0) + v[i + 1:]
            if unicodedata.normalize("NFKC", w) == v:
                return w
    return v + " "


NORMS = [("trailing-space", lambda v: v + " "), ("leading-space", lambda v: " " + v), ("space-both-sides", lambda v: " " + v + " "),
         ("trailing-tab", lambda v: v + "\t"), ("trailing-newline", lambda v: v + "\n"), ("leading-cr", lambda v: "\r" + v),
         ("other-case", lambda v: v.upper() if v != v.upper() else v.lower()), ("nfkc-look-alike", fullwidth),
         ("trailing-nbsp", lambda v: v + "\u00a0"),
         ("percent-encoded", lambda v: v[:-1] + "%%%02X" % ord(v[-1])), ("entity-encoded", lambda v: v[:-1] + "&#%d;" % ord(v[-1])),
         ("trailing-zero-width-space", lambda v: v + "\u200b")]


def tool_side_normalisation(orig_xml, level):
    """class (b): (name, xml)"""
    out = []
    for target in _targets(level):
        for nname, fn in NORMS:
            for slot in ("directly-behind-signature", "last-child"):
                oc = ET.fromstring(orig_xml)
                gen = oc if target == "response" else oc.find(ASSERTION)
                gsig = gen.find(SIG) if gen is not None else None
                if gsig is None:
                    continue
                padded = fn(gen.get("ID"))
                f = xswdoc.forged_doc(**({"rid": padded} if target == "response" else {"aid": padded}))
                twin = f if target == "response" else f.find(ASSERTION)
                twin.insert(1, xswdoc.decoy_signature(gsig, padded))       # Issuer, worthless own signature '#'+padded
                holder = ET.Element("{%s}Advice" % SAML if target == "assertion" else "{%s}Extensions" % SAMLP)
                holder.append(gen)
                if slot == "directly-behind-signature":
                    twin.insert(2, holder)
                else:
                    twin.append(holder)
                out.append(("id-normalised-by-tool-side:%s:%s:own-decoy-signature-first:genuine-%s" % (target, nname, slot),
                            ET.tostring(f, encoding="unicode")))
    return out


# ------------------------------------------------------------------ what the library really hands over
def _recording_init(orig_init, sink):
    """FakePopen.__init__ wrapped: record argv and the octets of the document file of every --verify run (whoever
    re-installs the stand-in tool in between, the class itself records)"""
    def __init__(self, argv, *a, **kw):
        argv = list(argv)
        rec = None
        if "--verify" in argv:
            rec = dict(argv=argv, octets=None, ok=None)
            try:
                with open(argv[-1], "rb") as fh:
                    rec["octets"] = fh.read()
            except (OSError, TypeError):
                pass
            sink.tool.append(rec)
        orig_init(self, argv, *a, **kw)
        if rec is not None:
            rec["ok"] = self.returncode == 0 and (self._err or b"").startswith(b"OK")
    return __init__


class Recorder(object):
    """with Recorder() as rec: rec.reset(); <library call>; problems = audit(rec, ...)"""

    def __init__(self):
        self.tool, self.pre, self.events = [], [], []
        self.helper = None

    def reset(self):
        self.tool, self.pre = [], []

    def __enter__(self):
        self._init = xmlsec_core.FakePopen.__init__
        xmlsec_core.FakePopen.__init__ = _recording_init(self._init, self)
        self.helper = getattr(sigver, "_enveloped_signature_ok", None)
        if self.helper is not None:
            orig, me = self.helper, self

            def recording_precheck(*a, **k):
                names = ("decoded_xml", "node_name", "node_id", "id_attr")
                got = dict(zip(names, a))
                got.update({n: v for n, v in k.items() if n in names})
                got["at"] = len(me.tool)
                me.pre.append(got)
                r = orig(*a, **k)
                got["result"] = r
                return r
            sigver._enveloped_signature_ok = recording_precheck
        return self

    def __exit__(self, *a):
        xmlsec_core.FakePopen.__init__ = self._init
        if self.helper is not None:
            sigver._enveloped_signature_ok = self.helper


def _argv_value(argv, opt):
    return argv[argv.index(opt) + 1] if opt in argv and argv.index(opt) + 1 < len(argv) else None


_TAKES = ("--privkey-pem", "--pubkey-cert-pem", "--pubkey-cert-der", "--node-id", "--output", "--enabled-reference-uris",
          "--session-key", "--xml-data", "--node-xpath", "--pubkey-pem", "--node-name", "--trusted-pem")


def _options(argv):
    """the argv read the way the tool reads it (an option that takes a value consumes the NEXT element whatever it
    looks like): ([values of --node-id], [(id attribute, node name)])"""
    nids, idattrs = [], []
    i = 1
    while i < len(argv):
        x = argv[i]
        if isinstance(x, str) and x.startswith("--id-attr:") and i + 1 < len(argv):
            idattrs.append((x[len("--id-attr:"):], argv[i + 1]))
            i += 1
        elif x in _TAKES and i + 1 < len(argv):
            if x == "--node-id":
                nids.append(argv[i + 1])
            i += 1
        i += 1
    return nids, idattrs


def _octets(x):
    return x if isinstance(x, bytes) or x is None else x.encode("utf-8")


def audit(rec, item_id=None, node_name=None, text=None, know_item=False):
    """the composition obligations on one recorded window; returns [(tag, message)].
    With know_item: every `--verify` run for node_name got `--node-id` byte-for-byte item_id (and the text).
    Always: every `--verify` run with a --node-id was preceded by a pre-check call that was given the SAME id string,
    the same node name, the same id attribute name and the same document octets, and answered True."""
    out = []
    if know_item and node_name is not None and rec.tool and not any(n == node_name for t in rec.tool for _, n in _options(t["argv"])[1]):
        out.append(("id-attr-name-not-item-name", "no tool run of this check registers the IDs of %s elements" % node_name))
    for i, t in enumerate(rec.tool):
        argv = t["argv"]
        nids, idattrs = _options(argv)
        nid = nids[-1] if nids else None
        if know_item and (node_name is None or any(n == node_name for _, n in idattrs)):
            if nid != item_id or not isinstance(nid, str):
                out.append(("node-id-not-item-id", "the tool was started with --node-id %r, the object's id is %r" % (nid, item_id)))
            if text is not None and t["octets"] is not None and t["octets"] != _octets(text):
                out.append(("tool-text-not-item-text", "the document handed to the tool is not the text the object was parsed from"))
        if [a for a, _ in idattrs] != ["ID"]:
            out.append(("id-attr-not-ID", "the tool was told --id-attr %r" % (idattrs,)))
        # every verification names its start node: --node-id once, followed by ONE argv element that is the literal ID
        # of an element (of the registered name) of the very document handed over - whatever that ID looks like
        if len(nids) != 1:
            out.append(("tool-run-without-node-id", "the tool was started for a verification with %d --node-id options (argv %r)"
                        % (len(nids), argv[1:-1])))
        elif t["octets"] is not None and len(idattrs) == 1:
            lits = literal_ids(t["octets"], idattrs[0][0], idattrs[0][1])
            if lits is not None and nid not in lits:
                out.append(("node-id-names-no-element", "the tool was started with --node-id %r; the %s elements of the document carry %r"
                            % (nid, idattrs[0][1].rpartition(":")[2], sorted(lits))))
        if rec.helper is None or nid is None:
            continue
        before = [p for p in rec.pre if p["at"] <= i]
        same = [p for p in before if p.get("node_id") == nid and type(p.get("node_id")) is type(nid)]
        if not same:
            out.append(("precheck-id-not-tool-id", "the tool was started with --node-id %r, the pre-check(s) before it were given %r"
                        % (nid, [p.get("node_id") for p in before])))
            continue
        p = same[-1]
        if p.get("result") is not True:
            out.append(("tool-run-after-negative-precheck", "the tool was run for %r although the pre-check answered %r" % (nid, p.get("result"))))
        if idattrs and p.get("node_name") != idattrs[0][1]:
            out.append(("precheck-name-not-tool-name", "pre-check asked about %r, tool about %r" % (p.get("node_name"), idattrs[0][1])))
        if idattrs and (p.get("id_attr") or "ID") != idattrs[0][0]:
            out.append(("precheck-idattr-not-tool-idattr", "pre-check reads attribute %r, tool %r" % (p.get("id_attr"), idattrs[0][0])))
        if t["octets"] is not None and p.get("decoded_xml") is not None and _octets(p["decoded_xml"]) != t["octets"]:
            out.append(("precheck-text-not-tool-text", "the pre-check and the tool were given different documents"))
    return out


def literal_ids(octets, id_attr, node_name):
    """the literal id_attr values of the elements called node_name ('namespace:tag') in the document, None if unparsable"""
    try:
        root = ET.fromstring(octets)
    except ET.ParseError:
        return None
    ns, _, tag = node_name.rpartition(":")
    return set(e.get(id_attr) for e in root.iter("{%s}%s" % (ns, tag)) if e.get(id_attr) is not None)


def element_at(root, path):
    el = root
    for k in path:
        el = el[k]
    return el


def attr_table(el):
    """the element's attribute table as the parser delivers it: ((namespace | None, local name, value), ...) in order"""
    out = []
    for k, v in el.attrib.items():
        if k.startswith("{"):
            ns, _, local = k[1:].partition("}")
            out.append((ns, local, v))
        else:
            out.append((None, k, v))
    return tuple(out)


def coq_attr_table(t):
    from core import cstr, copt, clist
    return clist(list(t), lambda a: "(%s, %s, %s)" % (copt(a[0], cstr), cstr(a[1]), cstr(a[2])))
