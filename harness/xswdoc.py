"""C01 material (refines harness/xsw.py, which C10 keeps using): the symbolic twin
`Model.Xsw.tree` of any XML document (a ds:Signature node keeps its ID, payload and
element children, so content parked in a ds:Object is part of the twin), the tables
recorded when the harness signs (which key signed which SignedInfo, which content a
DigestValue digests), genuine documents for all algorithms / signing levels /
plain and encrypted, and the extra wrapping mutations C01 needs on top of
xsw.mutations (self-referencing decoy signatures, two-message attacks against both
signatures, encrypted carriers, near-miss documents signed by the harness itself,
random placements)."""
import copy
import xml.etree.ElementTree as ET

import env
import pipeline
import resp
import xsw
from core import cstr, cbool, copt, clist
from pipeline import A, R
from saml2_tophat import saml, samlp, sigver, class_name
import saml2_tophat.xmldsig as ds

DS = xsw.DS
SAMLP = xsw.SAMLP
SAML = xsw.SAML
SIG = xsw.SIG
ASSERTION = xsw.ASSERTION
RESPONSE = xsw.RESPONSE
ENCASSERTION = "{%s}EncryptedAssertion" % SAML
SIGNEDINFO = "{%s}SignedInfo" % DS
REFERENCE = "{%s}Reference" % DS
SIGVALUE = "{%s}SignatureValue" % DS
DIGVALUE = "{%s}DigestValue" % DS

KEYID = {"idp": 1, "idp2": 2, "other": 3, "sp2": 4, "sp": 5, "md": 6}

ALGS = [
    ("sha1", ds.SIG_RSA_SHA1, ds.DIGEST_SHA1),
    ("sha224", ds.SIG_RSA_SHA224, ds.DIGEST_SHA224),
    ("sha256", ds.SIG_RSA_SHA256, ds.DIGEST_SHA256),
    ("sha384", ds.SIG_RSA_SHA384, ds.DIGEST_SHA384),
    ("sha512", ds.SIG_RSA_SHA512, ds.DIGEST_SHA512),
]

_names = {SIG: 0}
_payloads = {}
DIG = {}      # DigestValue text -> twin (tuple form) of the digested content
SV = {}       # SignatureValue text -> (key id, canonical SignedInfo)
_cert_keys = {}


def _intern(table, key):
    if key not in table:
        table[key] = len(table) + 1
    return table[key]


def name_of(tag):
    if tag == SIG:
        return 0
    if tag not in _names:
        _names[tag] = len(_names)      # SIG occupies 0, so the first other name gets 1
    return _names[tag]


def node_name_n(node_name):
    """'namespace:tag' as pysaml2 passes it -> interned element name"""
    ns, _, tag = node_name.rpartition(":")
    return name_of("{%s}%s" % (ns, tag))


def c14n(elem):
    return ET.canonicalize(xml_data=ET.tostring(elem, encoding="unicode"))


def sym(elem, ignore=None, top=False):
    """ET element -> ('El', name, id, payload, kids) | ('Sg', refs, key, sv_ok, id, payload, kids);
    `ignore` = an element to leave out wherever it is (the enveloped transform)"""
    attrs = tuple(sorted((k, v) for k, v in elem.attrib.items() if k != "ID"))
    kids = [sym(c, ignore) for c in elem if c is not ignore]
    # the tail travels with the node (the enveloped transform drops the signature together with its tail);
    # a digested subtree is taken without its own tail (canonicalisation drops it)
    payload = _intern(_payloads, (attrs, elem.text or "", "" if top else (elem.tail or "")))
    ident = elem.attrib.get("ID")
    if elem.tag != SIG:
        return ("El", name_of(elem.tag), ident, payload, kids)
    si = elem.find(SIGNEDINFO)
    sv = elem.find(SIGVALUE)
    refs = []
    if si is not None:
        for ref in si.findall(REFERENCE):
            dv = ref.find(DIGVALUE)
            txt = (dv.text or "").strip() if dv is not None else None
            d = DIG.get(txt)
            if d is None:
                d = ("El", 999999, None, _intern(_payloads, ("unknown-digest", txt)), [])
            refs.append((ref.attrib.get("URI", ""), d))
    rec = SV.get((sv.text or "").strip() if sv is not None else None)
    if rec is None or si is None:
        return ("Sg", refs, 0, False, ident, payload, kids)
    return ("Sg", refs, rec[0], rec[1] == c14n(si), ident, payload, kids)


def learn(xml, key):
    """after the harness signed: every not yet known SignatureValue of this document was made with `key`
    over the SignedInfo it stands next to; every not yet known DigestValue digests what its Reference
    points at now (inner signatures first, they are part of what outer ones digest)"""
    root = ET.fromstring(xml) if isinstance(xml, (str, bytes)) else xml
    sigs = list(root.iter(SIG))
    ids = {}
    for el in root.iter():
        if "ID" in el.attrib:
            ids.setdefault(el.attrib["ID"], el)
    for s in reversed(sigs):
        sv = s.find(SIGVALUE)
        si = s.find(SIGNEDINFO)
        if sv is None or si is None or not (sv.text or "").strip():
            continue
        if sv.text.strip() not in SV:
            SV[sv.text.strip()] = (KEYID[key], c14n(si))
        for ref in si.findall(REFERENCE):
            uri = ref.attrib.get("URI", "")
            target = root if uri == "" else ids.get(uri[1:])
            dv = ref.find(DIGVALUE)
            if target is not None and dv is not None and (dv.text or "").strip() and dv.text.strip() not in DIG:
                DIG[dv.text.strip()] = sym(target, ignore=s, top=True)
    return root


def key_of_cert(path):
    """which harness key does this certificate file (as pysaml2 wrote it) hold"""
    body = "".join(l for l in open(path).read().split("\n") if l and not l.startswith("-----")).strip()
    if not _cert_keys:
        for name, n in KEYID.items():
            try:
                _cert_keys[env.cert_b64(name)] = n
            except OSError:
                pass
    return _cert_keys.get(body, 99)


# ---------------------------------------------------------------- Coq terms (digests shared by `let`)
class CoqDoc(object):
    """prints a twin with every digested tree bound once"""

    def __init__(self):
        self.lets = []
        self.seen = {}

    def tree(self, t):
        if t[0] == "Sg":
            return "(Sg %s %d %s %s %d %s)" % (
                clist(t[1], lambda r: "(%s, %s)" % (cstr(r[0]), self.digest(r[1]))), t[2], cbool(t[3]),
                copt(t[4], cstr), t[5], clist(t[6], self.tree))
        return "(El %d %s %d %s)" % (t[1], copt(t[2], cstr), t[3], clist(t[4], self.tree))

    def digest(self, d):
        k = repr(d)
        if k not in self.seen:
            body = self.tree(d)
            self.seen[k] = "d%d" % len(self.seen)
            self.lets.append((self.seen[k], body))
        return self.seen[k]

    def wrap(self, body):
        return "".join("let %s := %s in\n" % (n, b) for n, b in self.lets) + body


def parse_text(text):
    """the document as the SP's parser and the tool see it: parsed from OCTETS (text is sent UTF-8 encoded), so an
    XML encoding declaration is honoured - parsing the str would ignore it"""
    return ET.fromstring(text.encode("utf-8") if isinstance(text, str) else text)


def path_of(root, elem):
    """child-index path of `elem` below `root`"""
    if elem is root:
        return []
    parents = {c: p for p in root.iter() for c in p}
    p = []
    cur = elem
    while cur is not root:
        par = parents[cur]
        p.append(list(par).index(cur))
        cur = par
    return list(reversed(p))


# ---------------------------------------------------------------- genuine documents
IDENT = {"name_id": "alice", "attributes": {"urn:oid:2.5.4.42": ["Alice"]}}


def genuine(rsig, asig, encrypted=False, alg=None, key="idp", rid="r-1", aid="a-1", user=None):
    """a validly signed response (user alice unless `user` overrides); returns xml text.  Learns its signatures."""
    u = dict(IDENT, **(user or {}))
    a = A(id=aid, sig="valid" if asig else None, **u)
    spec = R(id=rid, sig="valid" if rsig else None, assertions=[] if encrypted else [a], encrypted=[a] if encrypted else [])
    if alg is not None:
        spec["sign_alg"], spec["digest_alg"] = alg[1], alg[2]
    xml = pipeline.build_xml(spec)
    learn(xml, key)
    if encrypted and asig:
        # what is inside the EncryptedAssertion was signed before encryption: learn it from the plain build
        spec2 = dict(spec, assertions=[a], encrypted=[], sig=None)
        learn(pipeline.build_xml(spec2), key)
    return xml


FORGED = {"name_id": "admin", "attributes": {"urn:oid:2.5.4.42": ["Mallory"]}}


def forged_doc(rid="r-evil", aid="a-evil"):
    return ET.fromstring(pipeline.build_xml(R(id=rid, assertions=[A(id=aid, **FORGED)])))


def decoy_signature(template_sig, ident):
    """a Signature that LOOKS like the element's own: single Reference '#ident', base64-valid garbage values"""
    s = copy.deepcopy(template_sig)
    for obj in s.findall("{%s}Object" % DS):
        s.remove(obj)
    s.find(SIGNEDINFO).find(REFERENCE).set("URI", "#" + ident)
    s.find(SIGVALUE).text = "Z2FyYmFnZQ=="
    return s


def encrypt_assertions(xml, cert="sp"):
    """turn every Assertion child of the Response root into an EncryptedAssertion for the SP
    (anybody can do that: the SP's encryption certificate is public)"""
    root = ET.fromstring(xml)
    n = 0
    for i, ch in enumerate(list(root)):
        if ch.tag == ASSERTION:
            ea = ET.Element(ENCASSERTION)
            root.remove(ch)
            ea.append(ch)
            root.insert(i, ea)
            n += 1
    text = ET.tostring(root, encoding="unicode")
    xpath = '/*[local-name()="Response"]/*[local-name()="EncryptedAssertion"]/*[local-name()="Assertion"]'
    for _ in range(n):
        text = resp.signer("idp").crypto.encrypt_assertion(text, env.cert(cert), sigver.pre_encryption_part(), node_xpath=xpath)
    return text


def _sigchild(el):
    return el.find(SIG)


def extra_mutations(orig_xml, level, other_xml=None):
    """(name, xml) beyond xsw.mutations.  `other_xml`: a second genuine message of the same issuer
    (different IDs) the attacker also holds."""
    out = []

    def fresh():
        return ET.fromstring(orig_xml)

    def emit(name, root):
        out.append((name, ET.tostring(root, encoding="unicode")))

    o = fresh()
    oa = o.find(ASSERTION)
    # --- the forged element carries a decoy signature of its own; the valid original sits EARLIER in the document
    if level in ("response", "both"):
        for slot in ("Extensions-first", "Issuer"):
            for idkind in ("new-id", "same-id"):
                f = forged_doc(rid="r-evil" if idkind == "new-id" else o.get("ID"))
                oc = fresh()
                if slot == "Extensions-first":
                    h = ET.Element("{%s}Extensions" % SAMLP)
                    h.append(oc)
                    f.insert(0, h)
                else:
                    f.find("{%s}Issuer" % SAML).append(oc)
                f.insert(2, decoy_signature(_sigchild(oc), f.get("ID")))
                emit("decoy-response:%s:%s" % (slot, idkind), f)
        # the whole original response inside the forged one, forged carries only a copy of the signature placed LAST
        f = forged_doc()
        oc = fresh()
        h = ET.Element("{%s}Extensions" % SAMLP)
        h.append(oc)
        f.insert(1, h)
        f.append(copy.deepcopy(_sigchild(oc)))
        emit("wrap-response:Extensions:orig-keeps-sig:copy-last", f)
    if level in ("assertion", "both") and oa is not None and _sigchild(oa) is not None:
        for slot in ("Extensions", "Issuer-of-forged", "earlier-assertion"):
            for idkind in ("new-id", "same-id"):
                oc = fresh()
                oac = oc.find(ASSERTION)
                f = forged_doc(aid="a-evil" if idkind == "new-id" else oac.get("ID"))
                fa = f.find(ASSERTION)
                fa.insert(1, decoy_signature(_sigchild(oac), fa.get("ID")))
                if slot == "Extensions":
                    h = ET.Element("{%s}Extensions" % SAMLP)
                    h.append(oac)
                    f.insert(1, h)
                elif slot == "Issuer-of-forged":
                    fa.find("{%s}Issuer" % SAML).append(oac)
                else:
                    adv = ET.Element("{%s}Advice" % SAML)
                    adv.append(oac)
                    fa.insert(0, adv)
                emit("decoy-assertion:%s:%s" % (slot, idkind), f)
        # original (signature intact) nested FIRST inside the forged assertion, which has no signature child of its own
        oc = fresh()
        oac = oc.find(ASSERTION)
        f = forged_doc()
        fa = f.find(ASSERTION)
        adv = ET.Element("{%s}Advice" % SAML)
        adv.append(oac)
        fa.insert(0, adv)
        emit("nest-assertion:original-first-inside-forged:no-own-signature", f)
        fa.append(copy.deepcopy(_sigchild(oac)))
        emit("nest-assertion:original-first-inside-forged:copy-last", f)
    # --- near-miss identifiers: the forged element's ID is a proper suffix / prefix of the original's
    #     (a reference test by endswith / startswith / substring would let the copied signature through)
    for idkind, cut in (("suffix-id", lambda v: v[1:]), ("prefix-id", lambda v: v[:-1])):
        if level in ("response", "both"):
            oc = fresh()
            f = forged_doc(rid=cut(oc.get("ID")))
            h = ET.Element("{%s}Extensions" % SAMLP)
            s = _sigchild(oc)
            scopy = copy.deepcopy(s)
            oc.remove(s)
            h.append(oc)
            f.insert(1, h)
            f.insert(1, scopy)
            emit("wrap-response:Extensions:orig-stripped:%s" % idkind, f)
        if level in ("assertion", "both") and oa is not None and _sigchild(oa) is not None:
            oc = fresh()
            oac = oc.find(ASSERTION)
            s = _sigchild(oac)
            scopy = copy.deepcopy(s)
            oac.remove(s)
            f = forged_doc(aid=cut(oac.get("ID")))
            fa = f.find(ASSERTION)
            fa.insert(1, scopy)
            h = ET.Element("{%s}Extensions" % SAMLP)
            h.append(oac)
            f.insert(1, h)
            emit("wrap-assertion:Extensions:orig-stripped:%s" % idkind, f)
    # --- look-alike identifiers: the forged element's ID differs from the original's only by white space or case and
    #     the COMPLETE signed original is nested first inside the forged element (a pre-check that normalises the ID it
    #     looks up - strip(), lower() - would inspect the nested original while the tool is told the raw ID)
    for idkind, alike in (("trailing-space-id", lambda v: v + " "), ("leading-space-id", lambda v: " " + v),
                          ("upper-case-id", lambda v: v.upper())):
        if level in ("response", "both"):
            oc = fresh()
            f = forged_doc(rid=alike(oc.get("ID")))
            h = ET.Element("{%s}Extensions" % SAMLP)
            h.append(oc)
            f.insert(0, h)
            emit("nest-response:original-first-inside-forged:no-own-signature:%s" % idkind, f)
            f2 = copy.deepcopy(f)
            f2.append(copy.deepcopy(_sigchild(oc)))
            emit("nest-response:original-first-inside-forged:copy-last:%s" % idkind, f2)
        if level in ("assertion", "both") and oa is not None and _sigchild(oa) is not None:
            oc = fresh()
            oac = oc.find(ASSERTION)
            f = forged_doc(aid=alike(oac.get("ID")))
            fa = f.find(ASSERTION)
            fa.find("{%s}Issuer" % SAML).append(oac)
            emit("nest-assertion:original-first-inside-forged:no-own-signature:%s" % idkind, f)
            f2 = copy.deepcopy(f)
            f2.find(ASSERTION).append(copy.deepcopy(_sigchild(oac)))
            emit("nest-assertion:original-first-inside-forged:copy-last:%s" % idkind, f2)
    # --- encoding-declaration differential: the document declares ISO-8859-1 but is sent as UTF-8 octets; every
    #     reader that parses the octets (the SAML parser, the tool) sees the forged element's ID 'é' as 'Ã©', a reader
    #     that parses the decoded TEXT (declaration ignored) sees 'é' - and takes the decoy F, whose literal ID is
    #     'Ã©' and which carries a properly shaped signature of its own, for the element to inspect, while the tool,
    #     started at the forged element, verifies the genuine original nested in front of the forged element's signature
    if level in ("assertion", "both") and oa is not None and _sigchild(oa) is not None:
        for decoy_shape in ("own-signature", "no-signature"):
            oc = fresh()
            S = oc.find(ASSERTION)
            E = copy.deepcopy(S)
            E.set("ID", "\u00e9")
            E.find("{%s}Subject" % SAML).find("{%s}NameID" % SAML).text = "admin"
            for av in E.iter("{%s}AttributeValue" % SAML):
                av.text = "Mallory"
            sigE = _sigchild(E)
            E.remove(sigE)
            adv = ET.Element("{%s}Advice" % SAML)
            adv.append(copy.deepcopy(S))
            F = copy.deepcopy(S)
            F.set("ID", "\u00c3\u00a9")
            if decoy_shape == "own-signature":
                F.find(SIG).find(SIGNEDINFO).find(REFERENCE).set("URI", "#\u00c3\u00a9")
            else:
                F.remove(_sigchild(F))
            adv.append(F)
            E.insert(1, adv)
            E.insert(2, sigE)
            i = list(oc).index(S)
            oc.remove(S)
            oc.insert(i, E)
            out.append(("encoding-declaration:latin1-declared-utf8-sent:decoy-%s" % decoy_shape,
                        '<?xml version="1.0" encoding="ISO-8859-1"?>' + ET.tostring(oc, encoding="unicode")))
    # --- both signatures required: one message suffices under a first/last-wins tool, two are needed under a refusing one
    if level == "both":
        for second in ("same-message", "other-message"):
            src = fresh() if second == "same-message" else (ET.fromstring(other_xml) if other_xml else None)
            if src is None:
                continue
            sa = copy.deepcopy(src.find(ASSERTION))
            ssig = _sigchild(sa)
            scopy = copy.deepcopy(ssig)
            sa.remove(ssig)
            f = forged_doc()
            fa = f.find(ASSERTION)
            h = ET.Element("{%s}Extensions" % SAMLP)
            h.append(fresh())                                   # r-1 with its own signatures, first in document order
            f.insert(1, h)
            f.insert(2, decoy_signature(scopy, f.get("ID")))
            fa.insert(1, scopy)
            adv = ET.Element("{%s}Advice" % SAML)
            adv.append(sa)
            fa.insert(3, adv)
            emit("wrap-both:response-in-Extensions:assertion-of-%s-in-Advice" % second, f)
    return out


def signed_near_misses(level, alg=None):
    """documents whose odd signature arrangement was produced by the SIGNER (harness, issuer key): the tool accepts
    them, the statement's letter (exactly one own signature child, single reference to the element) does not"""
    out = []
    a = A(id="a-1", **IDENT)
    salg = dict(sign_alg=alg[1], digest_alg=alg[2]) if alg else {}
    if level == "assertion":
        node, nid, finder = ASSERTION, "a-1", (lambda d: d.find(ASSERTION))
    else:
        node, nid, finder = RESPONSE, "r-1", (lambda d: d)
    base = ET.fromstring(pipeline.build_xml(R(assertions=[a])))
    cname = "urn:oasis:names:tc:SAML:2.0:assertion:Assertion" if level == "assertion" else "urn:oasis:names:tc:SAML:2.0:protocol:Response"

    def template():
        return ET.fromstring(str(sigver.pre_signature_part(nid, env.cert_b64("idp"), sign_alg=salg.get("sign_alg"), digest_alg=salg.get("digest_alg"))))

    def sign(root):
        text = resp.signer("idp").sign_statement(ET.tostring(root, encoding="unicode"), node_name=cname, node_id=nid)
        learn(text, "idp")
        return text

    # (1) a second Signature child, covered by the first one's digest
    d = copy.deepcopy(base)
    el = finder(d)
    el.insert(1, template())
    el.insert(2, decoy_signature(template(), nid))
    out.append(("signer-made:second-signature-child:%s" % level, sign(d)))
    # (2) two References, both resolving (the second one to the same element)
    d = copy.deepcopy(base)
    el = finder(d)
    t = template()
    si = t.find(SIGNEDINFO)
    si.append(copy.deepcopy(si.find(REFERENCE)))
    el.insert(1, t)
    out.append(("signer-made:two-references:%s" % level, sign(d)))
    # (3) Reference URI "" (whole document)
    d = copy.deepcopy(base)
    el = finder(d)
    t = template()
    t.find(SIGNEDINFO).find(REFERENCE).set("URI", "")
    el.insert(1, t)
    out.append(("signer-made:reference-whole-document:%s" % level, sign(d)))
    # (5) a Reference with an external URI (refused by --enabled-reference-uris empty,same-doc; the stand-in resolves
    #     pv-ext: only when pysaml2 does NOT pass that option)
    d = copy.deepcopy(base)
    el = finder(d)
    t = template()
    import base64 as _b64
    t.find(SIGNEDINFO).find(REFERENCE).set("URI", "pv-ext:" + _b64.b64encode(ET.tostring(el, encoding="utf-8")).decode())
    el.insert(1, t)
    try:
        out.append(("signer-made:external-reference:%s" % level, sign(d)))
    except Exception:
        pass
    # (4) the element's signature is not a direct child (inside Issuer)
    d = copy.deepcopy(base)
    el = finder(d)
    el.find("{%s}Issuer" % SAML).append(template())
    out.append(("signer-made:signature-inside-issuer:%s" % level, sign(d)))
    return out


def random_placements(rng, orig_xml, level, n):
    """n random wrappings: which original element is parked where in a forged document, what happens to its
    signature, which ID the forged twin gets"""
    out = []
    for j in range(n):
        oc = ET.fromstring(orig_xml)
        what = "response" if level == "response" else ("assertion" if level == "assertion" else rng.choice(["response", "assertion"]))
        orig_el = oc if what == "response" else oc.find(ASSERTION)
        s = _sigchild(orig_el)
        if s is None:
            continue
        idkind = rng.choice(["new-id", "new-id", "same-id"])
        if what == "response":
            f = forged_doc(rid="r-evil" if idkind == "new-id" else orig_el.get("ID"))
            twin = f
        else:
            f = forged_doc(aid="a-evil" if idkind == "new-id" else orig_el.get("ID"))
            twin = f.find(ASSERTION)
        sigmode = rng.choice(["move-copy", "keep+copy", "keep+decoy", "keep-only", "move+decoy-after"])
        scopy = copy.deepcopy(s)
        if sigmode.startswith("move"):
            orig_el.remove(s)
        slots = [e for e in f.iter() if e.tag != SIG and not e.tag.startswith("{%s}" % DS)]
        holder = rng.choice(slots + ["ds-object"])
        pos_twin = rng.randint(0, len(twin))
        if sigmode in ("move-copy", "keep+copy"):
            twin.insert(pos_twin, scopy)
            if holder == "ds-object":
                obj = ET.SubElement(scopy, "{%s}Object" % DS)
                obj.append(orig_el)
        elif sigmode == "keep+decoy":
            twin.insert(pos_twin, decoy_signature(scopy, twin.get("ID")))
        elif sigmode == "move+decoy-after":
            twin.insert(pos_twin, scopy)
            twin.append(decoy_signature(scopy, twin.get("ID")))
        if holder == "ds-object" and sigmode not in ("move-copy", "keep+copy"):
            holder = f
        if holder != "ds-object":
            holder.insert(rng.randint(0, len(holder)), orig_el)
        name = "random:%s:%s:%s:in-%s" % (what, sigmode, idkind, holder if holder == "ds-object" else holder.tag.split("}")[1])
        out.append((name, ET.tostring(f, encoding="unicode")))
    return out
