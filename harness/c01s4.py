"""C01 round 4: two more situation classes.

(a) option_like_ids   the forged element's literal ID looks like a command-line option of the tool or needs quoting
        ('-x', '--node-id', '--id-attr:ID', blanks, '=', quotes, ';', '$', back-quotes, '%', DEL) or is the genuine
        identifier dressed that way ('-'+id, id+' --x', quoted id, percent-encoded id ...).  It carries a worthless
        Signature child of its own whose single Reference is '#'+that ID (the pre-check on the raw ID passes); the
        genuine signed element is parked EARLIER in the document (samlp:Extensions, the response's Issuer, an earlier
        sibling) - for a forged response, whose own signature must come first inside it, BEHIND that signature.  A tool
        run started without --node-id verifies the first signature of the document (the genuine one); a run started
        with the id stripped / split / unquoted / unescaped starts at the genuine element.
(b) multi_docs        responses with 1..3 plain <Assertion> children of which exactly one is the genuine signed one (the
        others unsigned / signed with another key / with a corrupted value, other subject, other attributes) plus one
        <EncryptedAssertion> filler (empty element, undecipherable, a genuine signed one), in every order, response
        signed or not.  `parse_assertion`'s count assert passes (one EncryptedAssertion) and its loop over the plain
        assertions must check EVERY one of them.
"""
import copy
import xml.etree.ElementTree as ET

import env
import pipeline
import resp
import xswdoc
from pipeline import A, R
from xswdoc import ASSERTION, RESPONSE, SIG, SAML, SAMLP, ENCASSERTION
from saml2_tophat import sigver

XENC = "http://www.w3.org/2001/04/xmlenc#"

# ------------------------------------------------------------------ (a)
FIXED_IDS = [("dash-x", "-x"), ("dash-1", "-1"), ("opt-node-id", "--node-id"), ("opt-insecure", "--insecure"),
             ("opt-id-attr", "--id-attr:ID"), ("single-dash", "-"), ("double-dash", "--"), ("blank-inside", "a b"),
             ("equals", "a=b"), ("apostrophe", "it's"), ("double-quote", 'say"q"'), ("semicolon", "a;b"), ("dollar", "$HOME"),
             ("back-quotes", "`id`"), ("percent", "%41"), ("del-character", "a\x7fb"), ("opt-verify", "--verify"),
             ("opt-output", "--output")]

DRESSED = [("dash-before-genuine", lambda g: "-" + g), ("two-dashes-before-genuine", lambda g: "--" + g),
           ("genuine-blank-word", lambda g: g + " x"), ("genuine-blank-option", lambda g: g + " --insecure"),
           ("word-blank-genuine", lambda g: "x " + g), ("genuine-semicolon-word", lambda g: g + ";x"),
           ("dollar-genuine", lambda g: "$" + g), ("back-quoted-genuine", lambda g: "`" + g + "`"),
           ("apostrophes-around-genuine", lambda g: "'" + g + "'"), ("double-quotes-around-genuine", lambda g: '"' + g + '"'),
           ("percent-encoded-first-character", lambda g: "%%%02X" % ord(g[0]) + g[1:]),
           ("genuine-equals-word", lambda g: g + "=x"), ("option-equals-genuine", lambda g: "--node-id=" + g),
           ("option-blank-genuine", lambda g: "--node-id " + g), ("genuine-del-character", lambda g: g + "\x7f"),
           ("backslash-genuine", lambda g: "\\" + g)]

SLOTS = {"assertion": ["Extensions-first", "Issuer-of-response", "earlier-sibling+empty-EncryptedAssertion"],
         "response": ["Extensions-behind-own-signature"]}


def _targets(level):
    return {"response": ["response"], "assertion": ["assertion"], "both": ["response", "assertion"]}[level]


def option_like_ids(orig_xml, level, rng, per_id_slots=1):
    """(name, xml); per_id_slots = how many of the parking slots each id gets (None: all)"""
    out = []
    for target in _targets(level):
        o = ET.fromstring(orig_xml)
        gen0 = o if target == "response" else o.find(ASSERTION)
        if gen0 is None or gen0.find(SIG) is None:
            continue
        gid = gen0.get("ID")
        ids = FIXED_IDS + [(n, fn(gid)) for n, fn in DRESSED]
        for idname, odd in ids:
            slots = SLOTS[target]
            if per_id_slots is not None and len(slots) > per_id_slots:
                slots = rng.sample(slots, per_id_slots)
            for slot in slots:
                oc = ET.fromstring(orig_xml)
                gen = oc if target == "response" else oc.find(ASSERTION)
                f = xswdoc.forged_doc(**({"rid": odd} if target == "response" else {"aid": odd}))
                twin = f if target == "response" else f.find(ASSERTION)
                twin.insert(1, xswdoc.decoy_signature(gen.find(SIG), odd))      # Issuer, worthless own signature '#'+odd
                if slot == "Extensions-first":
                    h = ET.Element("{%s}Extensions" % SAMLP)
                    h.append(gen)
                    f.insert(0, h)
                elif slot == "Issuer-of-response":
                    f.find("{%s}Issuer" % SAML).append(gen)
                elif slot == "earlier-sibling+empty-EncryptedAssertion":
                    f.insert(list(f).index(twin), gen)
                    f.append(ET.Element(ENCASSERTION))
                else:
                    h = ET.Element("{%s}Extensions" % SAMLP)
                    h.append(gen)
                    f.insert(2, h)                                              # Issuer, Signature, Extensions
                out.append(("id-option-like:%s:%s:genuine-in-%s" % (target, idname, slot), ET.tostring(f, encoding="unicode")))
    return out


# ------------------------------------------------------------------ (b)
GENUINE_EXTRA = {"name_id": "alice", "attributes": {"urn:oid:2.5.4.42": ["Alice"], "urn:oid:2.5.4.4": ["Liddell"]}}
FKINDS = [None, "wrongkey", "corrupt"]
FILLERS = ["empty", "undecipherable", "genuine-signed"]
RESPONSE_NAME = "urn:oasis:names:tc:SAML:2.0:protocol:Response"


def forged_ident(k):
    return {"name_id": "admin-%d" % k, "attributes": {"urn:oid:2.5.4.42": ["Mallory-%d" % k], "urn:oid:2.5.4.4": ["Evil-%d" % k]}}


class Multi(object):
    """one document of class (b) and what may be relied upon in it"""

    def __init__(self, name, xml, n, gpos, fkinds, filler, fpos, rsig, alg):
        self.name, self.xml, self.n, self.gpos, self.fkinds, self.filler, self.fpos, self.rsig, self.alg = \
            name, xml, n, gpos, fkinds, filler, fpos, rsig, alg
        # per assertion (document order is irrelevant here): id, individually signed by the issuer?, name id, attribute values
        self.parts = []
        for k in range(n):
            if k == gpos:
                self.parts.append(("a-1", True, xswdoc.IDENT["name_id"], set(v for l in xswdoc.IDENT["attributes"].values() for v in l)))
            else:
                fi = forged_ident(k)
                self.parts.append(("a-f%d" % k, False, fi["name_id"], set(v for l in fi["attributes"].values() for v in l)))
        if filler == "genuine-signed":
            self.parts.append(("a-enc", True, GENUINE_EXTRA["name_id"], set(v for l in GENUINE_EXTRA["attributes"].values() for v in l)))

    def trusted(self, st):
        """(ids, name ids, attribute values) an acceptance under setting st=(wrs, was, waors) may draw from"""
        wrs, was, waors = st
        ok = list(self.parts)
        if wrs and not self.rsig:
            ok = []
        if was or (waors and not wrs and not self.rsig):
            ok = [p for p in ok if p[1]]
        vals = set()
        for p in ok:
            vals |= p[3]
        return set(p[0] for p in ok), set(p[2] for p in ok), vals


def build_multi(n, gpos, fkinds, filler, fpos, rsig, alg=None, learn=False):
    specs = []
    for k in range(n):
        if k == gpos:
            specs.append(A(id="a-1", sig="valid", **xswdoc.IDENT))
        else:
            specs.append(A(id="a-f%d" % k, sig=fkinds[k], **forged_ident(k)))
    enc = [A(id="a-enc", sig="valid", **GENUINE_EXTRA)] if filler == "genuine-signed" else []
    spec = R(id="r-m", sig=None, assertions=specs, encrypted=enc)
    if alg is not None:
        spec["sign_alg"], spec["digest_alg"] = alg[1], alg[2]
    root = ET.fromstring(pipeline.build_xml(spec))
    if filler == "genuine-signed":
        ea = root.find(ENCASSERTION)
        root.remove(ea)
    else:
        ea = ET.Element(ENCASSERTION)
        if filler == "undecipherable":
            ed = ET.SubElement(ea, "{%s}EncryptedData" % XENC)
            cd = ET.SubElement(ed, "{%s}CipherData" % XENC)
            ET.SubElement(cd, "{%s}CipherValue" % XENC).text = "Z2FyYmFnZQ=="
    plain = [c for c in root if c.tag == ASSERTION]
    if fpos < len(plain):
        root.insert(list(root).index(plain[fpos]), ea)
    else:
        root.append(ea)
    if rsig:
        t = ET.fromstring(str(sigver.pre_signature_part("r-m", env.cert_b64("idp"), sign_alg=alg[1] if alg else None,
                                                        digest_alg=alg[2] if alg else None)))
        root.insert(1, t)
        xml = resp.signer("idp").sign_statement(ET.tostring(root, encoding="unicode"), node_name=RESPONSE_NAME, node_id="r-m")
    else:
        xml = ET.tostring(root, encoding="unicode")
    if learn:
        xswdoc.learn(xml, "idp")          # only called when every signature present was made by the issuer key
    name = "multi-assertion:%d-plain:genuine-at-%d:others-%s:filler-%s-at-%d:response-%s" % (
        n, gpos, "+".join(str(fkinds[k] or "unsigned") for k in range(n) if k != gpos) or "none", filler, fpos,
        "signed" if rsig else "unsigned")
    return Multi(name, xml, n, gpos, fkinds, filler, fpos, rsig, alg[0] if alg else "default")


def multi_docs(rng, alg, quick):
    out = []
    for n in (1, 2, 3):
        for gpos in range(n):
            for filler in FILLERS:
                for fpos in range(n + 1):
                    for rsig in (False, True):
                        combos = [[rng.choice(FKINDS) for _ in range(n)]]
                        if not quick or n == 2:
                            combos = [[fk] * n for fk in FKINDS]
                        for fkinds in combos:
                            out.append(build_multi(n, gpos, fkinds, filler, fpos, rsig, alg))
    return out


def multi_unit_docs(alg):
    """the few documents of class (b) that also go through the model units: only issuer-made signatures inside (the
    twin's tables are learnt from the finished text), fillers that need no decryption"""
    out = []
    for n, gpos, filler, fpos, rsig in ((2, 0, "empty", 2, False), (2, 1, "empty", 0, False), (3, 0, "undecipherable", 1, False),
                                        (2, 0, "empty", 1, True), (3, 2, "empty", 3, True)):
        out.append(build_multi(n, gpos, [None] * n, filler, fpos, rsig, alg, learn=True))
    return out


def observe_multi(sp, xml):
    """everything the application can read from an accepted response: dict, or the exception class name"""
    from core import Exn
    try:
        r = resp.post(sp, xml)
    except BaseException as e:  # noqa
        if isinstance(e, (KeyboardInterrupt, SystemExit)):
            raise
        return Exn(type(e).__name__)
    if r is None:
        return None

    def values(ava):
        return set(v for l in (ava or {}).values() for v in l)
    info = r.session_info()
    return dict(name_id=r.name_id.text if r.name_id is not None else None,
                info_name_id=info["name_id"].text if info.get("name_id") is not None else None,
                ava=values(r.ava), identity=values(r.get_identity()), info_ava=values(info.get("ava")),
                assertions=[a.id for a in r.assertions], assertion=r.assertion.id if r.assertion is not None else None)
