"""C15 translator: regenerate coq/Gen/RedirectConsts.v from /repo's working tree.

Reflection over the modules as they are imported NOW:
  pack.REQ_ORDER / pack.RESP_ORDER        (what http_redirect_message iterates over when signing)
  sigver.REQ_ORDER / sigver.RESP_ORDER    (what verify_redirect_signature iterates over)
  sigver.SIGNER_ALGS                      (key set + the digest each shared signer object carries)
  sigver.RSACrypto.get_signer             (shared module-level object with the key stored on it, or a fresh one;
                                           and: no key remembered on a long-lived backend between calls)
  pack.SIG_ALLOWED_ALG                    (values accepted by http_redirect_message's assert)
  pack.urlencode / sigver.urlencode       (which percent-encoder each side really uses: measured on all
                                           256 single bytes and classified; only the treatment of '~'
                                           may differ from urllib's quote_plus, anything else is refused)
Fail-closed: an unexpected shape raises, which the driver reports as a broken obligation."""
import importlib

from core import COQ, REPO, cstr, write_if_changed

HDR = ("(* GENERATED from /repo by harness/translate_c15.py on every run - do not edit *)\n"
       "From PV Require Import Lib.Base.\nOpen Scope N_scope.\n\n")


def _fresh(modname):
    m = importlib.import_module(modname)
    assert m.__file__.startswith(REPO + "/src/"), m.__file__
    return m


def _strlist(name, v):
    if not isinstance(v, (list, tuple)) or not all(isinstance(x, str) for x in v):
        raise TypeError("%s is not a list of str: %r" % (name, v))
    return "[" + "; ".join(cstr(x) for x in v) + "]"


def _py_quote_plus(b, tilde_safe):
    safe = b"ABCDEFGHIJKLMNOPQRSTUVWXYZabcdefghijklmnopqrstuvwxyz0123456789_.-" + (b"~" if tilde_safe else b"")
    out = ""
    for c in b:
        if c in safe:
            out += chr(c)
        elif c == 32:
            out += "+"
        else:
            out += "%%%02X" % c
    return out


def classify_urlencode(name, f):
    """True: '~' left alone (urllib.parse of Python >= 3.7); False: '~' -> %7E (future.backports / old urllib)."""
    for tilde_safe in (True, False):
        ok = True
        for c in range(256):
            b = bytes([c])
            if f({"k": b}) != "k=" + _py_quote_plus(b, tilde_safe) or f({b: "v"}) != _py_quote_plus(b, tilde_safe) + "=v":
                ok = False
                break
        if ok and f({"a b": "c~d/e", "x": "é"}) == "&".join(
                [_py_quote_plus(b"a b", tilde_safe) + "=" + _py_quote_plus(b"c~d/e", tilde_safe),
                 "x=" + _py_quote_plus("é".encode("utf-8"), tilde_safe)]):
            return tilde_safe
    raise TypeError("%s is neither quote_plus-with-~-safe nor quote_plus-with-~-quoted" % name)


def digest_name(signer):
    d = getattr(signer, "digest", None)
    n = getattr(d, "name", None)
    if not isinstance(n, str):
        raise TypeError("SIGNER_ALGS value without a named digest: %r" % (signer,))
    return n


def measure_shared(sigver):
    """Does RSACrypto.get_signer hand out the module-level signer object and store the caller's key on it
    (True), or a fresh signer carrying the caller's key and leaving SIGNER_ALGS alone (False)?  Measured with
    two sentinel keys on every algorithm; the table's keys are restored afterwards.  Anything else is refused."""
    k1, k2 = object(), object()
    verdicts = set()
    for alg, obj in sigver.SIGNER_ALGS.items():
        had = hasattr(obj, "key")
        saved = getattr(obj, "key", None)
        try:
            h1 = sigver.RSACrypto(k1).get_signer(alg)
            h2 = sigver.RSACrypto(k2).get_signer(alg)
            if h1 is obj and h2 is obj and obj.key is k2:
                verdicts.add(True)
            elif h1 is not obj and h2 is not obj and h1 is not h2 and h1.key is k1 and h2.key is k2 \
                    and getattr(obj, "key", None) is saved and h1.digest is obj.digest:
                verdicts.add(False)
            else:
                raise TypeError("get_signer(%s) is neither 'the shared object with the key stored on it' nor 'a fresh signer per call'" % alg)
        finally:
            if had:
                obj.key = saved
    if len(verdicts) != 1:
        raise TypeError("get_signer behaves differently for different algorithms: %r" % verdicts)
    shared = verdicts.pop()
    if not shared:
        measure_long_lived(sigver)
    return shared


def measure_long_lived(sigver):
    """The model's RSACrypto has no state of its own besides its key: a handle is made from `sigkey or self.key`
    of THIS call.  Measured on one long-lived backend per algorithm, whose first use is a call with a foreign key
    (get_signer(alg, sigkey=K) / verify_redirect_signature(.., sigkey=K)): the ordinary calls that follow must hand
    out signers over the backend's own key, sigkey calls signers over the sigkey.  Anything else is refused."""
    for alg in sigver.SIGNER_ALGS:
        for first in ("get_signer", "verify"):
            k1, k2, k3 = object(), object(), object()
            c = sigver.RSACrypto(k1)
            if first == "get_signer":
                h = c.get_signer(alg, sigkey=k2)
                if h.key is not k2:
                    raise TypeError("get_signer(%s, sigkey=K) does not hand out a signer over K" % alg)
            else:
                sigver.verify_redirect_signature({"SAMLRequest": "eA==", "SigAlg": alg, "Signature": "AAAA"}, c, None, k2)
            seq = [c.get_signer(alg), c.get_signer(alg, k3), c.get_signer(alg, None), c.get_signer(alg, sigkey=k2), c.get_signer(alg)]
            if [x.key for x in seq] != [k1, k3, k1, k2, k1] or c.key is not k1:
                raise TypeError("RSACrypto remembers a key between calls: after %s with a sigkey as first use of %s, get_signer hands out signers "
                                "over %s (k1 = the backend's own key, k2/k3 = sigkeys; expected k1 k3 k1 k2 k1)" % (
                                    first, alg, " ".join({id(k1): "k1", id(k2): "k2", id(k3): "k3"}.get(id(x.key), "?") for x in seq)))


def regen_redirect():
    sigver = _fresh("saml2_tophat.sigver")
    pack = _fresh("saml2_tophat.pack")
    algs = sigver.SIGNER_ALGS
    if not isinstance(algs, dict) or not all(isinstance(k, str) for k in algs):
        raise TypeError("SIGNER_ALGS is not a dict keyed by str")
    allowed = pack.SIG_ALLOWED_ALG
    if not all(isinstance(p, (tuple, list)) and len(p) == 2 and isinstance(p[1], str) for p in allowed):
        raise TypeError("SIG_ALLOWED_ALG is not a sequence of (name, uri) pairs")
    rows = ["  (%s, %s)" % (cstr(k), cstr(digest_name(v))) for k, v in algs.items()]
    text = (HDR +
            "Definition pack_req_order : list str := %s.\n" % _strlist("pack.REQ_ORDER", pack.REQ_ORDER) +
            "Definition pack_resp_order : list str := %s.\n" % _strlist("pack.RESP_ORDER", pack.RESP_ORDER) +
            "Definition sigver_req_order : list str := %s.\n" % _strlist("sigver.REQ_ORDER", sigver.REQ_ORDER) +
            "Definition sigver_resp_order : list str := %s.\n" % _strlist("sigver.RESP_ORDER", sigver.RESP_ORDER) +
            "\n(* SIGNER_ALGS: key -> name of the digest carried by the shared signer object *)\n"
            "Definition signer_algs : list (str * str) := [\n" + ";\n".join(rows) + "\n].\n" +
            "\n(* the URIs http_redirect_message's assert accepts *)\n"
            "Definition sig_allowed_alg : list str := %s.\n" % _strlist("SIG_ALLOWED_ALG", [b for _, b in allowed]) +
            "\n(* does the urlencode each module imported leave '~' unescaped? (measured over all bytes) *)\n"
            "Definition pack_urlencode_tilde_safe : bool := %s.\n" % ("true" if classify_urlencode("pack.urlencode", pack.urlencode) else "false") +
            "Definition sigver_urlencode_tilde_safe : bool := %s.\n" % ("true" if classify_urlencode("sigver.urlencode", sigver.urlencode) else "false") +
            "\n(* does RSACrypto.get_signer hand out the module-level signer object and store the caller's key on it?\n"
            "   (measured with sentinel keys on every algorithm) *)\n"
            "Definition get_signer_returns_shared_object : bool := %s.\n" % ("true" if measure_shared(sigver) else "false"))
    return write_if_changed(COQ + "/Gen/RedirectConsts.v", text)


if __name__ == "__main__":
    print(regen_redirect())
