"""C04 (time text layer) — texts of time stamps through the REAL time_util.str_to_time / instant /
before / after / later_than, time.strptime, calendar.timegm, time.gmtime (controlled clock for
`now`) against Model/TimeUtil.v evaluated inside coqc, plus the property on the implementation
alone: an accepted text denotes the instant it spells, and the tuple comparisons the code makes
order texts as their instants are ordered.

Expected instants are computed here by an independent day count (days_from_civil below: the
era / year-of-era algorithm), not by time / calendar / the model."""
import calendar
import datetime
import re
import time
import types

import env
from core import Exn, cstr, cz, copt
from saml2_tophat import time_util

FMT = "%Y-%m-%dT%H:%M:%SZ"
IMPORTS = "Model.TimeUtil"

ARABIC = 0x0660        # ARABIC-INDIC DIGIT ZERO
FULLW = 0xFF10         # FULLWIDTH DIGIT ZERO
MATHB = 0x1D7CE        # MATHEMATICAL BOLD DIGIT ZERO
SUPER2 = "²"      # SUPERSCRIPT TWO: isdigit() but not \d


# ---------------------------------------------------------------- independent calendar
def days_from_civil(y, m, d):
    y -= m <= 2
    era = (y if y >= 0 else y - 399) // 400
    yoe = y - era * 400
    doy = (153 * (m + (-3 if m > 2 else 9)) + 2) // 5 + d - 1
    doe = yoe * 365 + yoe // 4 - yoe // 100 + doy
    return era * 146097 + doe - 719468


def leap(y):
    return y % 4 == 0 and (y % 100 != 0 or y % 400 == 0)


def mdays(y, m):
    return [31, 29 if leap(y) else 28, 31, 30, 31, 30, 31, 31, 30, 31, 30, 31][m - 1]


def inst(y, mo, d, h=0, mi=0, s=0):
    return days_from_civil(y, mo, d) * 86400 + h * 3600 + mi * 60 + s


def fields(t):
    """instant -> (y, mo, d, h, mi, s), by datetime arithmetic (years 1..9999)"""
    dt = datetime.datetime(1970, 1, 1) + datetime.timedelta(seconds=t)
    return (dt.year, dt.month, dt.day, dt.hour, dt.minute, dt.second)


T_MIN = inst(1, 1, 1)
T_MAX = inst(9999, 12, 31, 23, 59, 59)


# ---------------------------------------------------------------- spellings
def core(f, pad=(True,) * 5, tch="T"):
    y, mo, d, h, mi, s = f
    p = lambda v, on: ("%02d" % v) if on else ("%d" % v)
    return "%04d-%s-%s%s%s:%s:%s" % (y, p(mo, pad[0]), p(d, pad[1]), tch, p(h, pad[2]), p(mi, pad[3]), p(s, pad[4]))


def uni(text, zero, positions):
    """replace the ASCII digits at `positions` (indexes among the digits of the text) by digits of another script"""
    out, k = [], 0
    for ch in text:
        if ch.isascii() and ch.isdigit():
            out.append(chr(zero + int(ch)) if k in positions else ch)
            k += 1
        else:
            out.append(ch)
    return "".join(out)


# style -> (function of the six fields giving the text, does the code read it as that instant?)
# `None` as verdict: decided per case by the generator (depends on the fields)
def styles():
    S = {}
    S["Z"] = lambda f: core(f) + "Z"
    S["z"] = lambda f: core(f) + "z"
    S["tz"] = lambda f: core(f, tch="t") + "z"
    S["tZ"] = lambda f: core(f, tch="t") + "Z"
    S["noZ"] = lambda f: core(f)
    S["frac1"] = lambda f: core(f) + ".5Z"
    S["frac9"] = lambda f: core(f) + ".123456789Z"
    S["frac-noZ"] = lambda f: core(f) + ".250"
    S["dot"] = lambda f: core(f) + "."
    S["dotZ"] = lambda f: core(f) + ".Z"
    S["Z-lf"] = lambda f: core(f) + "Z\n"
    S["noZ-lf"] = lambda f: core(f) + "\n"
    S["frac-lf"] = lambda f: core(f) + ".75Z\n"
    S["frac-udigit"] = lambda f: core(f) + "." + chr(ARABIC + 3) + "7Z"
    S["unpadded"] = lambda f: core(f, (False,) * 5) + "Z"
    S["unpadded-tz"] = lambda f: core(f, (False,) * 5, "t") + "z"
    S["pad-m"] = lambda f: core(f, (False, True, True, True, True)) + "Z"
    S["pad-d"] = lambda f: core(f, (True, False, True, True, True)) + "Z"
    S["pad-H"] = lambda f: core(f, (True, True, False, True, True)) + "Z"
    S["pad-M"] = lambda f: core(f, (True, True, True, False, True)) + "Z"
    S["pad-S"] = lambda f: core(f, (True, True, True, True, False)) + "Z"
    S["year-udigit"] = lambda f: uni(core(f), FULLW, {0, 1, 2, 3}) + "Z"
    S["year-udigit-noZ"] = lambda f: uni(core(f), MATHB, {1, 3})
    S["units-udigit"] = lambda f: uni(core(f), ARABIC, {9, 11, 13}) + "Z"      # second digit of H, M, S
    S["units-udigit-noZ"] = lambda f: uni(core(f), ARABIC, {9, 11, 13})
    return S


STYLES = styles()
# spellings that never parse, whatever the fields
BAD = {
    "lead-blank": lambda f: " " + core(f) + "Z",
    "trail-blank": lambda f: core(f) + "Z ",
    "ZZ": lambda f: core(f) + "ZZ",
    "junk": lambda f: core(f) + "Zjunk",
    "offset": lambda f: core(f) + "+00:00",
    "offset-frac": lambda f: core(f) + ".5+01:00",
    "frac-z": lambda f: core(f) + ".5z",
    "t-noZ": lambda f: core(f, tch="t"),
    "t-frac": lambda f: core(f, tch="t") + ".5Z",
    "lf-lf": lambda f: core(f) + "Z\n\n",
    "lf-Z": lambda f: core(f) + "\nZ",
    "unpadded-noZ": lambda f: "%04d-%d-%dT%d:%d:%d" % f if min(f[1:]) < 10 else core(f) + "Q",
    "blank-T": lambda f: core(f).replace("T", " ") + "Z",
    "year3": lambda f: core(f)[1:] + "Z",
    "year5": lambda f: "1" + core(f) + "Z",
    "month3": lambda f: core(f)[:5] + "0" + core(f)[5:] + "Z",
    "sec3": lambda f: core(f) + "0Z",
    "no-dash": lambda f: core(f).replace("-", "", 1) + "Z",
    "slash": lambda f: core(f).replace("-", "/") + "Z",
    "colon-dot": lambda f: core(f).replace(":", ".") + "Z",
    "minus-year": lambda f: "-" + core(f) + "Z",
    "plus-sec": lambda f: core(f)[:-2] + "+" + core(f)[-1:] + "Z",
    "superscript": lambda f: core(f)[:-1] + SUPER2 + "Z",
    "month-udigit": lambda f: uni(core(f), ARABIC, {5}) + "Z",          # [0-9] classes are ASCII only
    "tens-udigit": lambda f: uni(core(f), ARABIC, {8}) + "Z",           # first digit of the hour
    "kelvin-T": lambda f: core(f).replace("T", "K") + "Z",
    "dotless-z": lambda f: core(f) + "ſ",
    "date-only": lambda f: core(f)[:10],
    "no-seconds": lambda f: core(f)[:16] + "Z",
}

YEARS = [1, 4, 100, 400, 999, 1000, 1583, 1600, 1700, 1900, 1969, 1970, 1972, 2000, 2023, 2024, 2026, 2037, 2038, 2100, 2400, 9999]
TIMES = [(0, 0, 0), (23, 59, 59), (12, 0, 0), (1, 2, 3), (9, 9, 9), (10, 10, 10), (0, 0, 59), (0, 59, 0), (19, 5, 7)]


def text_case(style, f, text, want, tag):
    if style.startswith("units-udigit") and len(f) == 6 and f[3] >= 20:
        want = None          # 2[0-3] is an ASCII class: 2 + a digit of another script is not an hour
    return dict(style=style, fields=list(f), text=text, want=want, tag=tag)


def gen_texts(rng, quick):
    """list of cases: text + the instant the generator means by it (want = None: the code must not read an instant)"""
    out = []
    names = sorted(STYLES)
    bad = sorted(BAD)
    years = YEARS + [rng.randrange(1, 10000) for _ in range(4 if quick else 40)]
    # every month end of every listed year (leap and not), first day, the days around the end
    for y in years:
        for mo in range(1, 13):
            last = mdays(y, mo)
            for d in sorted({1, last - 1, last, last + 1, 0, 29, 30, 31, 32}):
                h, mi, s = rng.choice(TIMES)
                f = (y, mo, d, h, mi, s)
                ok = 1 <= d <= last
                sts = ["Z", rng.choice(names)] if quick and not (mo == 2 or d >= last) else ["Z", "noZ", rng.choice(names), rng.choice(names)]
                for st in sorted(set(sts)):
                    if d == 0 and st.startswith("unpadded"):
                        continue
                    out.append(text_case(st, f, STYLES[st](f), inst(*f) if ok else None, "month-end" if d >= last - 1 else "day"))
    # the named instants and their neighbours in every style
    named = [inst(1970, 1, 1), -1, 2 ** 31 - 1, 2 ** 31, T_MIN, T_MIN + 1, T_MAX, T_MAX - 1, inst(1000, 1, 1), inst(1000, 1, 1) - 1,
             inst(2000, 2, 29), inst(2000, 3, 1) - 1, inst(1900, 3, 1) - 1, inst(2100, 2, 28, 23, 59, 59), inst(2400, 2, 29, 12, 0, 0),
             env.NOW, inst(2024, 12, 31, 23, 59, 59), inst(2025, 1, 1), inst(2026, 9, 5, 1, 2, 3), inst(2026, 1, 1, 1, 1, 1)]
    for t in named:
        f = fields(t)
        for st in names:
            out.append(text_case(st, f, STYLES[st](f), t, "named"))
        for b in bad:
            out.append(text_case(b, f, BAD[b](f), None, "bad-spelling"))
    # out-of-range fields: hour 24, minute 60, second 60 / 61 / 62, month 0 / 13, one digit too many
    base = (2026, 9, 21, 14, 13, 20)
    for y, mo, d in [(2026, 9, 21), (2024, 2, 29), (2026, 12, 31), (9999, 12, 31), (1, 1, 1), (1969, 12, 31)]:
        for (h, mi, s), ok in [((24, 0, 0), False), ((23, 60, 0), False), ((23, 59, 60), True), ((23, 59, 61), True), ((23, 59, 62), False),
                               ((0, 0, 60), True), ((0, 0, 61), True), ((25, 0, 0), False), ((0, 99, 0), False), ((0, 0, 99), False),
                               ((20, 0, 0), True), ((23, 0, 0), True), ((19, 59, 59), True), ((3, 4, 5), True)]:
            f = (y, mo, d, h, mi, s)
            for st in ["Z", "noZ", "frac1", "unpadded", "tz"]:
                out.append(text_case(st, f, STYLES[st](f), inst(*f) if ok else None, "field-range"))
    for mo in [0, 13, 19, 20, 99]:
        f = (2026, mo, 10, 1, 2, 3)
        for st in ["Z", "noZ", "unpadded"]:
            if mo == 0 and st == "unpadded":
                continue
            out.append(text_case(st, f, STYLES[st](f), None, "field-range"))
    for y in [0]:
        for st in ["Z", "noZ", "frac1"]:
            f = (0, 1, 1, 0, 0, 0)
            out.append(text_case(st, f, STYLES[st](f), None, "year-0"))
    # the day written blank + digit (an alternative of %d), and other hand-made texts
    hand = [("2026-09- 5T01:02:03Z", inst(2026, 9, 5, 1, 2, 3)), ("2026-9- 5t1:2:3z", inst(2026, 9, 5, 1, 2, 3)), ("2026-09- 5T01:02:03", None),
            ("2026-09-5 T01:02:03Z", None), ("2026-09-  5T01:02:03Z", None), ("2026-09- 0T01:02:03Z", None), ("2026- 9-05T01:02:03Z", None),
            ("2026-09-05T 1:02:03Z", None), ("2026-02- 9T00:00:00Z", inst(2026, 2, 9)),
            ("", 0), ("Z", None), ("T", None), ("0", None), ("never", None), ("2026", None), ("2026-09-21", None), ("2026-09-21T", None),
            ("2026-09-21T14:13:20Z2026-09-21T14:13:20Z", None), ("\n", None), ("2026-09-21T14:13:20\nZ", None), ("\n2026-09-21T14:13:20Z", None),
            ("2026-09-21T14:13:20.5.5Z", None), ("2026-09-21T14:13:20..Z", None), ("2026-09-21T14:13:20.5 Z", None), ("2026-09-21T14:13:20,5Z", None),
            ("2026-09-21T14:13:20.5Z\n", inst(2026, 9, 21, 14, 13, 20)), ("2026-09-21T14:13:20.\n", inst(2026, 9, 21, 14, 13, 20)),
            ("2026-09-21T14:13:20.5ZZ", None), ("2026-09-21T14:13:20Z.5", None), ("2026-09-21T14:13:2.5Z", None), ("2026-09-21T14:13:2Z", inst(2026, 9, 21, 14, 13, 2)),
            ("2026-09-21T14:13:2", None), ("2026-1-1T1:1:1Z", inst(2026, 1, 1, 1, 1, 1)), ("2026-12-1T1:1:1Z", inst(2026, 12, 1, 1, 1, 1)),
            ("2026-121T1:1:1Z", None), ("2026-1-1T1:1:61Z", inst(2026, 1, 1, 1, 1, 61)), ("2026-09-21T14:13:061Z", None), ("2026-010-21T14:13:06Z", None),
            ("2026-09-21T014:13:06Z", None), ("2026-09-021T14:13:06Z", None), ("2026-09-21T14:013:06Z", None), ("02026-09-21T14:13:06Z", None),
            ("2026-09-21T14:13:06z\n", None), ("2026-09-21t14:13:06Z\n", None), ("2026-09-21T14:13:06Z\r", None), ("2026-09-21T14:13:06Z\t", None),
            ("2026-09-21T14:13:06\r\n", None), ("2026-09-21T14:13:06Z\x00", None), ("2026-09-31T00:00:00", None), ("2026-02-30T00:00:00.5Z", None),
            ("2026-09-21T1" + chr(ARABIC + 4) + ":13:06Z", inst(2026, 9, 21, 14, 13, 6)), ("2026-09-21T2" + chr(ARABIC + 3) + ":13:06Z", None),
            ("2026-09-2" + chr(FULLW + 1) + "T14:13:06Z", inst(2026, 9, 21, 14, 13, 6)), ("2026-09-3" + chr(FULLW + 0) + "T14:13:06Z", None),
            ("2026-09-21T14:13:6" + chr(FULLW + 0) + "Z", None), ("2026-09-21T14:6" + chr(FULLW + 0) + ":00Z", None),
            ("2026-09-21T" + chr(ARABIC + 7) + ":" + chr(ARABIC + 8) + ":" + chr(ARABIC + 9) + "Z", inst(2026, 9, 21, 7, 8, 9)),
            ("2026-" + chr(ARABIC + 9) + "-21T14:13:06Z", None), ("2026-09-" + chr(ARABIC + 9) + "T14:13:06Z", None),
            ("2026-09-21T14:13:06" + chr(0xFF3A), None), ("2026-09-21" + chr(0xFF34) + "14:13:06Z", None), ("2026‐09-21T14:13:06Z", None)]
    for text, want in hand:
        out.append(text_case("hand", (), text, want, "hand"))
    # random instants in random styles (valid and not)
    for _ in range(300 if quick else 6000):
        t = rng.randrange(T_MIN, T_MAX + 1) if rng.random() < 0.5 else env.NOW + rng.randrange(-10 ** 9, 10 ** 9)
        f = fields(t)
        if rng.random() < 0.8:
            st = rng.choice(names)
            out.append(text_case(st, f, STYLES[st](f), t, "random"))
        else:
            b = rng.choice(bad)
            out.append(text_case(b, f, BAD[b](f), None, "random-bad"))
    # one text once
    seen, uniq = set(), []
    for c in out:
        if c["text"] not in seen:
            seen.add(c["text"])
            uniq.append(c)
    return uniq


# ---------------------------------------------------------------- running the real functions
def tup(v):
    if isinstance(v, time.struct_time):
        return [int(x) for x in tuple(v)]
    return v


def real(f, *a):
    try:
        return tup(f(*a))
    except BaseException as e:  # noqa
        if isinstance(e, (KeyboardInterrupt, SystemExit)):
            raise
        return Exn(type(e).__name__)


def carg(p):
    if p is None:
        return "ANone"
    if isinstance(p, int):
        return "(AInt %s)" % cz(p)
    return "(AText %s)" % cstr(p)


def digit_zeros():
    """what \\d matches, measured: the zero of every run of ten (and that they ARE runs of ten read by int())"""
    digs = [c for c in range(0x110000) if re.match(r"\d", chr(c))]
    zeros = [c for c in digs if int(chr(c)) == 0]
    dset = set(digs)
    regular = len(zeros) * 10 == len(digs) and all(all(z + k in dset and int(chr(z + k)) == k for k in range(10)) for z in zeros)
    return zeros, regular


def literal_matches():
    """which characters the literals of the format match under IGNORECASE"""
    return {lit: [c for c in range(0x110000) if re.match(lit, chr(c), re.I)] for lit in "TZ-:"}


# ---------------------------------------------------------------- the unit
def run(ctx):
    rng = ctx.rng
    quick = ctx.quick
    texts = gen_texts(rng, quick)
    ctx.extra["time_texts"] = len(texts)

    # 0. the character facts the model is built on
    zeros, regular = digit_zeros()
    lits = literal_matches()
    if not regular:
        ctx.broken.append(("time-text:digits", "the characters matched by \\d are no longer runs of ten read by int()"))
    if lits != {"T": [84, 116], "Z": [90, 122], "-": [45], ":": [58]}:
        ctx.broken.append(("time-text:literals", "IGNORECASE literals of the time format match %r" % ({k: v[:6] for k, v in lits.items()},)))
    ctx.correspond("time_digit_table", IMPORTS, "run_digit_zeros", "unit", [dict(id=0, coq="tt", impl=zeros, show="digit zeros")])
    fmt_ok = getattr(time_util, "TIME_FORMAT", None) == FMT
    if not fmt_ok:
        ctx.broken.append(("time-text:format", "time_util.TIME_FORMAT is %r, the model is written for %r" % (getattr(time_util, "TIME_FORMAT", None), FMT)))

    # 1. str_to_time and time.strptime on every text (+ None)
    c1, c2 = [], []
    parsed = {}
    for n, c in enumerate(texts):
        s = c["text"]
        got = real(time_util.str_to_time, s)
        parsed[s] = got
        show = dict(unit="time", fn="str_to_time", text=s, style=c["style"], tag=c["tag"])
        c1.append(dict(id=n, coq="(Some %s)" % cstr(s), impl=got, show=show))
        c2.append(dict(id=n, coq=cstr(s), impl=real(time.strptime, s, FMT), show=dict(show, fn="strptime")))
        cls = "instant" if isinstance(got, list) else ("zero" if got == 0 else got.name)
        ctx.count("time-text:%s:%s" % (c["tag"], cls))
        if isinstance(got, list):
            ctx.nontriv(("time-text", s))
        # the property on the implementation alone: the text denotes the instant it spells, or none
        if c["want"] is not None and s:
            ti = inst(*got[:6]) if isinstance(got, list) else None       # the day count of this file, not calendar
            if ti != c["want"]:
                ctx.oracle_fail("text-denotes-another-instant:%s" % c["style"],
                                "str_to_time(%r) gives %r (instant %r), the text spells instant %d" % (s, got, ti, c["want"]), show)
        elif c["want"] is None and isinstance(got, list) and c["tag"] in ("bad-spelling", "random-bad", "year-0"):
            ctx.oracle_fail("unreadable-text-read-as-instant:%s" % c["style"], "str_to_time(%r) gives %r" % (s, got), show)
    c1.append(dict(id=len(c1), coq="None", impl=real(time_util.str_to_time, None), show=dict(unit="time", fn="str_to_time", text=None)))
    ctx.correspond("time_str_to_time", IMPORTS, "run_str_to_time_opt", "(option str)", c1, shard=400)
    ctx.correspond("time_strptime", IMPORTS, "run_strptime", "str", c2, shard=400)

    # 2. gmtime / timegm / strftime on instants; timegm on raw six-tuples
    ts = sorted({t + d for t in [T_MIN, T_MAX, 0, 2 ** 31, env.NOW, inst(1000, 1, 1), inst(2000, 2, 29), inst(2000, 3, 1), inst(1900, 3, 1), inst(2100, 3, 1),
                                 inst(2400, 3, 1), inst(1600, 12, 31), inst(1601, 1, 1), inst(400, 12, 31), inst(401, 1, 1), inst(4, 2, 29), inst(5, 1, 1)]
                 for d in (-86400, -1, 0, 1, 86399, 86400) if T_MIN <= t + d <= T_MAX}
                | {inst(y, 12, 31, 23, 59, 59) + d for y in YEARS for d in (0, 1) if y < 9999}
                | {rng.randrange(T_MIN, T_MAX + 1) for _ in range(300 if quick else 5000)})
    c3 = []
    for n, t in enumerate(ts):
        g = time.gmtime(t)
        impl = [tup(g), real(calendar.timegm, g), time.strftime(FMT, g)]
        c3.append(dict(id=n, coq=cz(t), impl=impl, show=dict(unit="time", fn="gmtime", t=t)))
        if impl[1] != t or tup(g)[:6] != list(fields(t)):
            ctx.oracle_fail("gmtime-timegm-not-inverse", "gmtime(%d) = %r, timegm of it = %r" % (t, impl[0], impl[1]), dict(unit="time", fn="gmtime", t=t))
    ctx.correspond("time_gmtime", IMPORTS, "run_gmtime", "Z", c3, shard=400)
    c4 = []
    for n in range(200 if quick else 3000):
        f = (rng.choice(YEARS + [rng.randrange(1, 10000)]), rng.randrange(1, 13), rng.choice([0, 1, 28, 29, 30, 31, 32, 40, rng.randrange(1, 29)]),
             rng.choice([0, 23, 24, 30, rng.randrange(24)]), rng.choice([0, 59, 60, 99, rng.randrange(60)]), rng.choice([0, 59, 60, 61, 62, rng.randrange(60)]))
        c4.append(dict(id=n, coq="(%s)" % ", ".join(cz(x) for x in f), impl=real(calendar.timegm, f + (0, 0, 0)), show=dict(unit="time", fn="timegm", fields=list(f))))
    ctx.correspond("time_timegm", IMPORTS, "run_timegm", "(Z * Z * Z * Z * Z * Z)", c4, shard=400)

    # 3. comparisons: pairs of spellings around equal instants
    good = [c for c in texts if c["want"] is not None and c["text"] and isinstance(parsed[c["text"]], list)]
    unread = [c for c in texts if not isinstance(parsed[c["text"]], list) and c["text"]]
    bases = [env.NOW, 0, 2 ** 31, inst(2024, 2, 29), inst(2025, 1, 1), inst(2024, 12, 30), inst(2026, 3, 1), inst(2026, 9, 27), inst(2026, 9, 28),
             inst(2000, 1, 1), inst(1000, 1, 1) + 5, T_MAX - 90000, T_MIN + 90000, inst(2026, 10, 1), inst(2026, 1, 10), inst(2026, 2, 1)]
    bases += [rng.randrange(T_MIN + 10 ** 6, T_MAX - 10 ** 6) for _ in range(6 if quick else 200)]
    deltas = [-86400 * 366, -86400 * 31, -86400 * 7, -86400, -3600, -60, -1, 0, 1, 60, 3600, 86400, 86400 * 7, 86400 * 31, 86400 * 366]
    names = sorted(STYLES)
    lt_cases, ba_cases = [], []

    def spell(t, st=None):
        st = st or rng.choice(names)
        if st.startswith("units-udigit") and fields(t)[3] >= 20:      # not an hour (see text_case)
            st = "unpadded"
        return STYLES[st](fields(t)), st

    def add_lt(a, b, wa, wb, sa, sb):
        got = real(time_util.later_than, a, b)
        show = dict(unit="time", fn="later_than", a=a, b=b, styles=[sa, sb])
        lt_cases.append(dict(id=len(lt_cases), coq="(%s, %s)" % (carg(a), carg(b)), impl=got, show=show))
        ctx.count("later_than:%s" % (got.name if isinstance(got, Exn) else got))
        if wa is not None and wb is not None:
            if abs(wa - wb) <= 86400:
                ctx.nontriv(("later_than", a, b))
            if got != (wa >= wb):
                ctx.oracle_fail("text-order-differs-from-instant-order:later_than:%s:%s" % (sa, sb),
                                "later_than(%r, %r) = %r but the instants are %d and %d" % (a, b, got, wa, wb), show)

    def add_ba(now, p, wp, sp):
        if not T_MIN + 100 <= now <= T_MAX - 100:      # the clock patch's self-check looks 5 s ahead
            return
        with env.Clock(now):
            gb = real(time_util.before, p)
            ga = real(time_util.after, p)
            extra = [real(time_util.not_on_or_after, p), real(time_util.valid, p), real(time_util.not_before, p)]
        show = dict(unit="time", fn="before", now=now, point=p, style=sp)
        if p == 0:
            wp = None            # the integer 0 is falsy: no point at all
        ba_cases.append(dict(id=len(ba_cases), coq="(%s, %s)" % (cz(now), carg(p)), impl=[gb, ga], show=show))
        ctx.count("before:%s" % (gb.name if isinstance(gb, Exn) else gb))
        if extra != [gb, gb, ga]:
            ctx.oracle_fail("time-alias-differs:%s" % sp, "not_on_or_after / valid / not_before(%r) = %r, before / after = %r" % (p, extra, [gb, ga]), show)
        if wp is not None:
            if abs(now - wp) <= 86400:
                ctx.nontriv(("before", now, p))
            if gb != (now <= wp) or ga != (not (now <= wp)):
                ctx.oracle_fail("text-order-differs-from-instant-order:before:%s" % sp,
                                "now = %d, point %r (instant %d): before = %r, after = %r" % (now, p, wp, gb, ga), show)

    for t in bases:
        for da in deltas:
            ta = t + da
            if not T_MIN <= ta <= T_MAX:
                continue
            a, sa = spell(ta)
            b, sb = spell(t)
            add_lt(a, b, ta, t, sa, sb)
            add_lt(b, a, t, ta, sb, sa)
            p, sp = spell(t)
            add_ba(ta, p, t, sp)
            if abs(da) <= 60 or rng.random() < 0.3:
                add_lt(ta, b, ta, t, "int", sb)
                add_lt(a, t, ta, t, sa, "int")
                add_lt(ta, t, ta, t, "int", "int")
                add_ba(ta, t, t, "int")
    # every style against every style at equal and adjacent instants
    for sa in names:
        for sb in names:
            d = rng.choice([-1, 0, 0, 1])
            t = rng.choice(bases[:12])
            add_lt(spell(t + d, sa)[0], spell(t, sb)[0], t + d, t, sa, sb)
        for d in (-1, 0, 1):
            add_ba(env.NOW + d, spell(env.NOW, sa)[0], env.NOW, sa)
    # texts carried over by timegm (seconds 60 / 61) and month ends against the next day
    carried = [c for c in good if c["fields"] and c["fields"][5] >= 60]
    for c in carried[:40]:
        w = c["want"]
        for d in (-1, 0, 1):
            b, sb = spell(w + d)
            if T_MIN <= w + d <= T_MAX:
                add_lt(c["text"], b, w, w + d, c["style"] + "+carry", sb)
                add_ba(w + d, c["text"], w, c["style"] + "+carry")
    for c in rng.sample(good, min(len(good), 150 if quick else 2000)):
        w = c["want"]
        d = rng.choice([-1, 0, 1, -86400, 86400])
        if T_MIN <= w + d <= T_MAX:
            b, sb = spell(w + d)
            add_lt(c["text"], b, w, w + d, c["style"], sb)
            add_ba(w + d, c["text"], w, c["style"])
    # the falsy and unreadable arguments
    some, _ = spell(env.NOW, "Z")
    for p in [None, "", 0]:
        add_ba(env.NOW, p, None, "falsy")
        for q in [None, "", 0, some, env.NOW]:
            add_lt(p, q, None, None, "falsy", "any")
            add_lt(q, p, None, None, "any", "falsy")
    for c in rng.sample(unread, min(len(unread), 60 if quick else 600)):
        add_ba(env.NOW, c["text"], None, "unreadable")
        add_lt(c["text"], some, None, None, "unreadable", "Z")
        add_lt(some, c["text"], None, None, "Z", "unreadable")
        add_lt(c["text"], None, None, None, "unreadable", "none")
        add_lt(None, c["text"], None, None, "none", "unreadable")
    ctx.correspond("time_later_than", IMPORTS, "run_later_than", "(targ * targ)", lt_cases, shard=400)
    ctx.correspond("time_before_after", IMPORTS, "run_before_after", "(Z * targ)", ba_cases, shard=400)

    # 4. instant() under the controlled clock
    c5 = []
    for now, stamp in [(env.NOW, 0), (env.NOW, env.NOW + 5), (inst(2024, 2, 29, 23, 59, 59), 0), (env.NOW, inst(999, 12, 31, 23, 59, 59)), (env.NOW, T_MIN), (env.NOW, T_MAX),
                       (env.NOW, -1), (env.NOW, 1), (inst(1000, 1, 1), 0), (env.NOW, inst(2000, 2, 29)), (env.NOW, inst(10, 1, 1)), (env.NOW, inst(100, 1, 1))] + \
                      [(env.NOW, rng.randrange(T_MIN, T_MAX)) for _ in range(40)]:
        with env.Clock(now):
            got = real(time_util.instant, FMT, stamp)
        c5.append(dict(id=len(c5), coq="(%s, %s)" % (cz(now), cz(stamp)), impl=got, show=dict(unit="time", fn="instant", now=now, stamp=stamp)))
        t = stamp or now
        if t >= inst(1000, 1, 1) and isinstance(got, str):
            back = real(time_util.str_to_time, got)
            if not isinstance(back, list) or real(calendar.timegm, back) != t:
                ctx.oracle_fail("instant-does-not-read-back", "instant(%d) = %r reads back as %r" % (t, got, back), dict(unit="time", fn="instant", now=now, stamp=stamp))
    ctx.correspond("time_instant", IMPORTS, "run_instant", "(Z * Z)", c5)

    # 5. the IssueInstant window as the code computes it: lower < issued_at < upper on tuples, the bounds from datetime.timetuple()
    try:
        from saml2_tophat.response import StatusResponse
        fn = StatusResponse.issue_instant_ok
    except Exception as e:  # noqa
        ctx.broken.append(("time-text:issue_instant_ok", "StatusResponse.issue_instant_ok not found: %r" % (e,)))
        return
    c6 = []
    for slack in (0, 60):
        for off in (-2, -1, 0, 1, 2):
            for side in (-1, 1):
                for st in ("Z", "noZ", "unpadded", "frac1"):
                    now = env.NOW
                    issued = now + side * (86400 + slack) + off
                    text = STYLES[st](fields(issued))
                    obj = _status_response(slack, text)
                    with env.Clock(now):
                        got = real(obj.issue_instant_ok)
                    show = dict(unit="time", fn="issue_instant_ok", now=now, slack=slack, text=text)
                    c6.append(dict(id=len(c6), coq="(%s, %s, %s)" % (cz(now), cz(slack), cstr(text)), impl=got, show=show))
                    want = now - 86400 - slack <= issued < now + 86400 + slack
                    inside = abs(now - issued) < 86400 + slack
                    outside = abs(now - issued) > 86400 + slack
                    if (inside and got is not True) or (outside and got is not False):
                        ctx.oracle_fail("text-order-differs-from-instant-order:issue_instant:%s" % st,
                                        "IssueInstant %r at now=%d allowance=%d: %r (window test on instants: %r)" % (text, now, slack, got, want), show)
    ctx.correspond("time_issue_window", IMPORTS, "run_issue_window", "(Z * Z * str)", c6)


def _status_response(slack, text):
    """a REAL StatusResponse object (so that whatever private helpers the method uses exist) carrying only the two things the
    window test reads: the allowance and the IssueInstant text of the parsed message"""
    from saml2_tophat.response import StatusResponse
    class _AnySec(object):          # the constructor only stores bound methods of the security context; none is called here
        def __getattr__(self, name):
            return None
    obj = StatusResponse(_AnySec(), timeslack=slack)
    obj.response = types.SimpleNamespace(issue_instant=text)
    return obj


def replay(payload_input):
    c = payload_input
    fn = c.get("fn")
    print("replay (time text layer):", c)
    if fn in ("str_to_time", "strptime"):
        s = c.get("text")
        print("time_util.str_to_time(%r) ->" % (s,), real(time_util.str_to_time, s))
        if isinstance(s, str):
            print("time.strptime(%r, %r) ->" % (s, FMT), real(time.strptime, s, FMT))
    elif fn == "later_than":
        a, b = c["a"], c["b"]
        print("time_util.later_than(%r, %r) ->" % (a, b), real(time_util.later_than, a, b))
        for x in (a, b):
            if isinstance(x, str):
                g = real(time_util.str_to_time, x)
                print("  str_to_time(%r) -> %r, instant %r" % (x, g, real(calendar.timegm, g) if isinstance(g, list) else None))
    elif fn == "before":
        with env.Clock(c["now"]):
            print("now = %d: before(%r) -> %r, after -> %r" % (c["now"], c["point"], real(time_util.before, c["point"]), real(time_util.after, c["point"])))
        if isinstance(c["point"], str):
            g = real(time_util.str_to_time, c["point"])
            print("  str_to_time -> %r, instant %r" % (g, real(calendar.timegm, g) if isinstance(g, list) else None))
    elif fn == "gmtime":
        g = time.gmtime(c["t"])
        print("time.gmtime(%d) -> %r; calendar.timegm -> %r; strftime -> %r" % (c["t"], tup(g), real(calendar.timegm, g), time.strftime(FMT, g)))
    elif fn == "timegm":
        print("calendar.timegm(%r) ->" % (c["fields"],), real(calendar.timegm, tuple(c["fields"]) + (0, 0, 0)))
    elif fn == "instant":
        with env.Clock(c["now"]):
            print("instant(time_stamp=%d) at now=%d ->" % (c["stamp"], c["now"]), real(time_util.instant, FMT, c["stamp"]))
    elif fn == "issue_instant_ok":
        from saml2_tophat.response import StatusResponse
        obj = _status_response(c["slack"], c["text"])
        with env.Clock(c["now"]):
            print("issue_instant_ok(%r) at now=%d allowance=%d ->" % (c["text"], c["now"], c["slack"]), real(obj.issue_instant_ok))
    return 0
