"""Signature-wrapping material for C01 / C10 / C17: real signed documents, the
mutation operators of the property's quantifier applied to the real XML, and the
symbolic twin (Model.Xmlsec.tree) of any document, derived with tables recorded
when the harness signed (which key signed which SignedInfo over which content)."""
import copy
import xml.etree.ElementTree as ET

import env
import pipeline
import resp
from core import cstr, cbool, copt, clist
from pipeline import A, R

DS = "http://www.w3.org/2000/09/xmldsig#"
SAMLP = "urn:oasis:names:tc:SAML:2.0:protocol"
SAML = "urn:oasis:names:tc:SAML:2.0:assertion"
SIG = "{%s}Signature" % DS
ASSERTION = "{%s}Assertion" % SAML
RESPONSE = "{%s}Response" % SAMLP

KEYID = {"idp": 1, "idp2": 2, "other": 3, "sp2": 4, "sp": 5, "md": 6}

_names = {}
_payloads = {}
DIG = {}      # DigestValue text -> symbolic tree (python tuple form) of the digested content
SV = {}       # SignatureValue text -> (key id, canonical SignedInfo bytes)


def _intern(table, key):
    if key not in table:
        table[key] = len(table) + 1
    return table[key]


def name_id(tag):
    return _intern(_names, tag)


def c14n(elem):
    return ET.canonicalize(xml_data=ET.tostring(elem, encoding="unicode"))


def symbolic(elem, ignore=None):
    """ET element -> ('El', name, id, payload, kids) | ('Sg', refs, key, sv_ok); `ignore` = a child element to leave out"""
    if elem.tag == SIG:
        si = elem.find("{%s}SignedInfo" % DS)
        sv = elem.find("{%s}SignatureValue" % DS)
        refs = []
        if si is not None:
            for ref in si.findall("{%s}Reference" % DS):
                dv = ref.find("{%s}DigestValue" % DS)
                d = DIG.get((dv.text or "").strip() if dv is not None else None)
                if d is None:
                    d = ("El", 999999, None, _intern(_payloads, ("unknown-digest", dv.text if dv is not None else None)), [])
                refs.append((ref.attrib.get("URI", ""), d))
        rec = SV.get((sv.text or "").strip() if sv is not None else None)
        if rec is None or si is None:
            return ("Sg", refs, 0, False)
        return ("Sg", refs, rec[0], rec[1] == c14n(si))
    attrs = tuple(sorted((k, v) for k, v in elem.attrib.items() if k != "ID"))
    kids = [symbolic(c, ignore) for c in elem if c is not ignore]
    tails = tuple((c.tail or "") for c in elem if c is not ignore)
    payload = _intern(_payloads, (attrs, elem.text or "", tails))
    return ("El", name_id(elem.tag), elem.attrib.get("ID"), payload, kids)


def record_signatures(root):
    """after the harness signed `root` (an ET tree): learn every signature in it (inside-out)"""
    sigs = [s for s in root.iter(SIG)]
    parents = {c: p for p in root.iter() for c in p}
    ids = {}
    for el in root.iter():
        if "ID" in el.attrib:
            ids.setdefault(el.attrib["ID"], el)
    for s in reversed(sigs):
        sv = s.find("{%s}SignatureValue" % DS)
        si = s.find("{%s}SignedInfo" % DS)
        if sv is None or si is None or not (sv.text or "").strip():
            continue
        for ref in si.findall("{%s}Reference" % DS):
            uri = ref.attrib.get("URI", "")
            target = root if uri == "" else ids.get(uri[1:])
            dv = ref.find("{%s}DigestValue" % DS)
            if target is not None and dv is not None and (dv.text or "").strip() not in DIG:
                DIG[dv.text.strip()] = symbolic(target, ignore=s if parents.get(s) is target else None)


def signed_by(xml, key):
    """remember that every not yet known signature of this document was made with `key`"""
    root = ET.fromstring(xml)
    for s in root.iter(SIG):
        sv = s.find("{%s}SignatureValue" % DS)
        si = s.find("{%s}SignedInfo" % DS)
        if sv is not None and si is not None and (sv.text or "").strip() and sv.text.strip() not in SV:
            SV[sv.text.strip()] = (KEYID[key], c14n(si))
    record_signatures(root)
    return root


def coq_tree(t):
    if t[0] == "Sg":
        return "(Sg %s %d %s)" % (clist(t[1], lambda r: "(%s, %s)" % (cstr(r[0]), coq_tree(r[1]))), t[2], cbool(t[3]))
    return "(El %d %s %d %s)" % (t[1], copt(t[2], cstr), t[3], clist(t[4], coq_tree))


# ---------------------------------------------------------------- genuine documents
def genuine(rsig, asig, encrypted=False, key="idp"):
    """a validly signed response for user alice; returns xml text"""
    a = A(sig="valid" if asig else None, name_id="alice", attributes={"urn:oid:2.5.4.42": ["Alice"]})
    spec = R(sig="valid" if rsig else None, assertions=[] if encrypted else [a], encrypted=[a] if encrypted else [])
    xml = pipeline.build_xml(spec)
    return xml


FORGED_ATTRS = {"urn:oid:2.5.4.42": ["Mallory"]}


def forged_doc(**over):
    return ET.fromstring(pipeline.build_xml(R(id=over.get("rid", "r-evil"), assertions=[
        A(id=over.get("aid", "a-evil"), name_id="admin", attributes=FORGED_ATTRS)])))


def _sigchild(el):
    return el.find(SIG)


def mutations(orig_xml, level):
    """yield (name, xml text) for the mutation operators; `level` in {'response','assertion','both'} says what the original signed.
    Every mutated document differs from the original in identity-bearing content or in the signature arrangement."""
    def fresh():
        return ET.fromstring(orig_xml)
    out = []

    def emit(name, root):
        out.append((name, ET.tostring(root, encoding="unicode")))

    o = fresh()
    oa = o.find(ASSERTION)
    # --- edits of signed content
    r = fresh(); r.find(ASSERTION).find("{%s}Subject" % SAML).find("{%s}NameID" % SAML).text = "admin"; emit("edit-nameid", r)
    r = fresh(); r.find(ASSERTION).find("{%s}AttributeStatement" % SAML)[0][0].text = "Mallory"; emit("edit-attribute", r)
    r = fresh(); r.find(ASSERTION).find("{%s}Conditions" % SAML).set("NotOnOrAfter", env.ts(env.NOW + 9000)); emit("edit-conditions", r)
    r = fresh(); r.set("InResponseTo", "req-1"); r.find(ASSERTION).set("IssueInstant", env.ts(env.NOW - 5)); emit("edit-issue-instant", r)
    # --- signature stripped / corrupted
    for el_name, finder in (("response", lambda d: d), ("assertion", lambda d: d.find(ASSERTION))):
        r = fresh(); el = finder(r); s = _sigchild(el)
        if s is not None:
            el.remove(s); emit("strip-signature-" + el_name, r)
            r = fresh(); el = finder(r); sv = _sigchild(el).find("{%s}SignatureValue" % DS); sv.text = "AAAA" + sv.text[4:]; emit("corrupt-sigvalue-" + el_name, r)
            r = fresh(); el = finder(r); dv = _sigchild(el).find("{%s}SignedInfo/{%s}Reference/{%s}DigestValue" % (DS, DS, DS)); dv.text = "AAAA" + dv.text[4:]; emit("corrupt-digest-" + el_name, r)
    # --- wrapping attacks on the RESPONSE signature
    if level in ("response", "both"):
        for slot in ("Extensions-first", "Extensions-after-issuer", "Status-detail", "ds-object"):
            for sigkind in ("copy", "garbage"):
                for idkind in ("new-id", "same-id", "no-id"):
                    f = forged_doc(rid={"new-id": "r-evil", "same-id": o.get("ID"), "no-id": "r-evil"}[idkind])
                    if idkind == "no-id":
                        del f.attrib["ID"]
                    oc = fresh()
                    s = copy.deepcopy(_sigchild(oc))
                    if sigkind == "garbage":
                        s.find("{%s}SignatureValue" % DS).text = "Z2FyYmFnZQ=="
                    if slot == "ds-object":
                        obj = ET.SubElement(s, "{%s}Object" % DS); obj.append(oc); f.insert(1, s)
                    else:
                        holder = ET.Element("{%s}Extensions" % SAMLP)
                        holder.append(oc)
                        if slot == "Status-detail":
                            st = f.find("{%s}Status" % SAMLP); sd = ET.SubElement(st, "{%s}StatusDetail" % SAMLP); sd.append(oc)
                        else:
                            f.insert(0 if slot == "Extensions-first" else 1, holder)
                        f.append(s)
                    emit("wrap-response:%s:%s:%s" % (slot, sigkind, idkind), f)
    # --- wrapping attacks on the ASSERTION signature
    if level in ("assertion", "both") and oa is not None and _sigchild(oa) is not None:
        for park in ("Extensions", "Advice", "ds-object", "earlier-sibling-in-subject", "after-as-second-assertion"):
            for keep_sig_in_orig in (False, True):
                for idkind in ("new-id", "same-id", "no-id"):
                    oc = fresh()
                    oac = oc.find(ASSERTION)
                    s = _sigchild(oac)
                    scopy = copy.deepcopy(s)
                    if not keep_sig_in_orig:
                        oac.remove(s)
                    f = forged_doc(aid={"new-id": "a-evil", "same-id": oac.get("ID"), "no-id": "a-evil"}[idkind])
                    if level == "both":
                        continue_resp_sig = True
                    fa = f.find(ASSERTION)
                    if idkind == "no-id":
                        del fa.attrib["ID"]
                    fa.insert(1, scopy)
                    if park == "Extensions":
                        h = ET.Element("{%s}Extensions" % SAMLP); h.append(oac); f.insert(1, h)
                    elif park == "Advice":
                        h = ET.Element("{%s}Advice" % SAML); h.append(oac); fa.insert(3, h)
                    elif park == "ds-object":
                        obj = ET.SubElement(scopy, "{%s}Object" % DS); obj.append(oac)
                    elif park == "earlier-sibling-in-subject":
                        fa.find("{%s}Subject" % SAML).insert(0, oac)
                    else:
                        f.append(oac)
                    emit("wrap-assertion:%s:%s:%s" % (park, "orig-keeps-sig" if keep_sig_in_orig else "orig-stripped", idkind), f)
        # nested-earlier signature: a forged assertion whose OWN direct signature child is harmless-looking, but an earlier nested copy is what the tool sees
        oc = fresh(); oac = oc.find(ASSERTION); s = _sigchild(oac); scopy = copy.deepcopy(s); oac.remove(s)
        f = forged_doc(); fa = f.find(ASSERTION)
        own = copy.deepcopy(scopy)
        own.find("{%s}SignedInfo/{%s}Reference" % (DS, DS)).set("URI", "#a-evil")
        fa.insert(1, own)
        fa.find("{%s}Issuer" % SAML).append(scopy)          # earlier in document order than the direct child
        h = ET.Element("{%s}Extensions" % SAMLP); h.append(oac); f.insert(1, h)
        emit("wrap-assertion:nested-earlier-signature", f)
        # duplicate signature children on the forged assertion
        for order in ("copy-first", "copy-last"):
            oc = fresh(); oac = oc.find(ASSERTION); s = _sigchild(oac); scopy = copy.deepcopy(s); oac.remove(s)
            f = forged_doc(); fa = f.find(ASSERTION)
            own = copy.deepcopy(scopy); own.find("{%s}SignedInfo/{%s}Reference" % (DS, DS)).set("URI", "#a-evil")
            kids = [scopy, own] if order == "copy-first" else [own, scopy]
            for j, k in enumerate(kids):
                fa.insert(1 + j, k)
            h = ET.Element("{%s}Extensions" % SAMLP); h.append(oac); f.insert(1, h)
            emit("wrap-assertion:duplicate-signature-children:" + order, f)
        # signature relocated onto a different element
        r = fresh(); ra = r.find(ASSERTION); s = _sigchild(ra); ra.remove(s)
        ra.find("{%s}Subject" % SAML).find("{%s}NameID" % SAML).text = "admin"
        r.insert(1, s); emit("relocate-assertion-signature-to-response", r)
        r = fresh(); ra = r.find(ASSERTION); s = _sigchild(ra); ra.remove(s)
        ra.find("{%s}Subject" % SAML).find("{%s}NameID" % SAML).text = "admin"
        ra.find("{%s}Subject" % SAML).append(s); emit("relocate-assertion-signature-into-subject", r)
        # duplicate ID: forged and original assertion carry the same ID, original hidden
        oc = fresh(); oac = oc.find(ASSERTION)
        f = forged_doc(aid=oac.get("ID")); fa = f.find(ASSERTION)
        h = ET.Element("{%s}Extensions" % SAMLP); h.append(oac); f.insert(1, h)
        emit("duplicate-id:original-in-extensions:forged-unsigned", f)
    return out
