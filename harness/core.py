"""Shared machinery of the checks: Coq build, obligation accounting, model
evaluation (vm_compute inside coqc), value encoding, evidence, violations.

Nothing here knows about a particular property; see harness/props/cXX.py.
"""
import fcntl
import glob
import hashlib
import json
import os
import random
import re
import subprocess
import sys
import time
from concurrent.futures import ThreadPoolExecutor

VERIF = os.environ.get("VERIF_ROOT") or os.path.dirname(os.path.dirname(os.path.abspath(__file__)))
COQ = VERIF + "/coq"
WORK = VERIF + "/.work"
REPO = os.environ.get("VERIF_REPO") or "/repo"
NCPU = 16

STDLIB_AXIOMS = {
    # axioms the Coq standard library itself declares; allowed but always named
    "classic", "functional_extensionality_dep", "proof_irrelevance", "JMeq_eq",
    "eq_rect_eq", "propositional_extensionality", "constructive_indefinite_description",
    "constructive_definite_description", "epsilon_statement", "dependent_unique_choice",
    "relational_choice", "sig_forall_dec", "sig_not_dec",
}

FORBIDDEN = re.compile(
    r"\b(Admitted|admit|Axiom|Axioms|Parameter|Parameters|Conjecture|Conjectures|"
    r"Hypothesis|Hypotheses|Variable|Variables|Admit Obligations)\b|Unset Guard|"
    r"bypass_check|type-in-type|impredicative-set|Unset Universe Checking|Unset Positivity")


def sh(cmd, timeout=600, cwd=None, env=None, inp=None):
    t0 = time.time()
    try:
        p = subprocess.run(cmd, shell=isinstance(cmd, str), cwd=cwd, env=env, input=inp,
                           stdout=subprocess.PIPE, stderr=subprocess.STDOUT,
                           timeout=timeout, text=True, errors="replace")
        return p.returncode, p.stdout, time.time() - t0
    except subprocess.TimeoutExpired as e:
        out = e.stdout if isinstance(e.stdout, str) else (e.stdout or b"").decode("utf8", "replace")
        return 124, (out or "") + "\n*** timeout after %ss" % timeout, time.time() - t0


# --------------------------------------------------------------------------
# Python value  ->  Coq [val] term
# --------------------------------------------------------------------------
class Exn(object):
    """an exception of class `name` was raised"""
    def __init__(self, name):
        self.name = name

    def __repr__(self):
        return "Exn(%s)" % self.name

    def __eq__(self, o):
        return isinstance(o, Exn) and o.name == self.name

    def __hash__(self):
        return hash(("Exn", self.name))


def cstr(s):
    """Python str (code points) or bytes -> Coq `list N` literal"""
    if isinstance(s, str):
        pts = [ord(c) for c in s]
    else:
        pts = list(s)
    if not pts:
        return "([]:str)"
    if all(32 <= p < 127 for p in pts):
        return '(s2l "%s")' % "".join(chr(p) for p in pts).replace('"', '""')
    return "[" + ";".join(map(str, pts)) + "]%N"


def cbool(b):
    return "true" if b else "false"


def cz(n):
    return "(%d)%%Z" % n


def copt(x, f):
    return "None" if x is None else "(Some %s)" % f(x)


def clist(xs, f):
    return "[" + "; ".join(f(x) for x in xs) + "]"


def cval(v):
    if v is None:
        return "VNone"
    if isinstance(v, Exn):
        return '(VE (s2l "%s"))' % v.name
    if isinstance(v, bool):
        return "(VB %s)" % cbool(v)
    if isinstance(v, int):
        return "(VZ %s)" % cz(v)
    if isinstance(v, (str, bytes)):
        return "(VS %s)" % cstr(v)
    if isinstance(v, (list, tuple)):
        return "(VL [" + "; ".join(cval(x) for x in v) + "])"
    raise TypeError("cval: %r" % (v,))


def jsonable(v):
    if isinstance(v, Exn):
        return {"raises": v.name}
    if isinstance(v, bytes):
        return {"bytes": v.decode("latin1")}
    if isinstance(v, (list, tuple)):
        return [jsonable(x) for x in v]
    if isinstance(v, dict):
        return {str(k): jsonable(x) for k, x in v.items()}
    if isinstance(v, (set, frozenset)):
        return sorted(jsonable(x) for x in v)
    if v is None or isinstance(v, (bool, int, float, str)):
        return v
    return repr(v)


def call(f, *a, **k):
    """run f, mapping any exception to Exn(class name)"""
    try:
        return f(*a, **k)
    except BaseException as e:  # noqa
        if isinstance(e, (KeyboardInterrupt, SystemExit)):
            raise
        return Exn(type(e).__name__)


# --------------------------------------------------------------------------
# Coq project build
# --------------------------------------------------------------------------
def coq_files():
    fs = []
    for d in ("Lib", "Model", "Gen", "Proofs", "Props"):
        fs += sorted(glob.glob("%s/%s/*.v" % (COQ, d)))
    return [os.path.relpath(f, COQ) for f in fs]


def write_if_changed(path, text):
    try:
        with open(path) as fh:
            if fh.read() == text:
                return False
    except OSError:
        pass
    os.makedirs(os.path.dirname(path), exist_ok=True)
    tmp = path + ".tmp%d" % os.getpid()
    with open(tmp, "w") as fh:
        fh.write(text)
    os.replace(tmp, path)
    return True


class Lock(object):
    def __init__(self, name):
        os.makedirs(WORK, exist_ok=True)
        self.path = "%s/%s.lock" % (WORK, name)

    def __enter__(self):
        self.f = open(self.path, "w")
        fcntl.flock(self.f, fcntl.LOCK_EX)

    def __exit__(self, *a):
        fcntl.flock(self.f, fcntl.LOCK_UN)
        self.f.close()


def coq_make(targets, timeout=2400, clean=False):
    """full .vo build of `targets` (paths relative to coq/), under a lock.
    Returns (ok, log, cmd)."""
    with Lock("make"):
        proj = "-Q . PV\n-arg -w -arg -all\n" + "\n".join(coq_files()) + "\n"
        changed = write_if_changed(COQ + "/_CoqProject", proj)
        if changed or not os.path.exists(COQ + "/Makefile"):
            rc, out, _ = sh("coq_makefile -f _CoqProject -o Makefile", cwd=COQ, timeout=120)
            if rc != 0:
                return False, out, "coq_makefile"
        if clean:
            sh("make clean", cwd=COQ, timeout=300)
        cmd = "timeout %d make -j%d %s" % (timeout, NCPU, " ".join(targets))
        rc, out, _ = sh(cmd, cwd=COQ, timeout=timeout + 30)
        return rc == 0, out, "cd coq && coq_makefile -f _CoqProject -o Makefile && " + cmd


def forbidden_scan():
    """no Admitted/admit/Axiom/Parameter/... anywhere in the development"""
    hits = []
    for f in coq_files():
        txt = open(COQ + "/" + f).read()
        # strip comments (non-nested is enough: we never nest)
        txt2 = re.sub(r"\(\*.*?\*\)", lambda m: "\n" * m.group(0).count("\n"), txt, flags=re.S)
        in_section = 0
        for i, line in enumerate(txt2.split("\n"), 1):
            if re.match(r"\s*Section\b", line):
                in_section += 1
            if re.match(r"\s*End\b", line) and in_section:
                in_section -= 1
            for m in FORBIDDEN.finditer(line):
                w = m.group(0)
                if w in ("Variable", "Variables", "Hypothesis", "Hypotheses") and in_section:
                    continue  # Section variables are discharged, not axioms
                hits.append("%s:%d: %s" % (f, i, w))
    return hits


THM_RE = re.compile(r"^\s*(Theorem|Lemma|Corollary|Example|Fact|Proposition)\s+([A-Za-z0-9_']+)", re.M)


def props_obligations(prop):
    """compile Props/<prop>.v on its own (its dependencies must be built) and
    return (names, assumptions: name -> list of axioms | None if not printed,
    ok, log, cmd)."""
    src = "%s/Props/%s.v" % (COQ, prop)
    txt = open(src).read()
    txt_nc = re.sub(r"\(\*.*?\*\)", "", txt, flags=re.S)
    names = [m.group(2) for m in THM_RE.finditer(txt_nc)]
    printed = re.findall(r"Print Assumptions\s+([A-Za-z0-9_'.]+)\s*\.", txt_nc)
    out_dir = "%s/%s" % (WORK, prop)
    os.makedirs(out_dir, exist_ok=True)
    cmd = "timeout 900 coqc -w -all -Q . PV Props/%s.v -o %s/%s.vo" % (prop, out_dir, prop)
    rc, out, _ = sh(cmd, cwd=COQ, timeout=930)
    blocks = []
    cur = None
    for line in out.split("\n"):
        if line.startswith("Closed under the global context"):
            blocks.append([])
            cur = None
        elif line.startswith("Axioms:"):
            cur = []
            blocks.append(cur)
        elif cur is not None:
            m = re.match(r"^([A-Za-z0-9_'.]+)\s*:", line)
            if m:
                cur.append(m.group(1))
    assumptions = {}
    if len(blocks) == len(printed):
        for n, b in zip(printed, blocks):
            assumptions[n] = b
    return names, printed, assumptions, rc == 0, out, "cd coq && " + cmd


def coqchk(prop, timeout=1500):
    cmd = "timeout %d coqchk -silent -o -Q . PV PV.Props.%s" % (timeout, prop)
    rc, out, _ = sh(cmd, cwd=COQ, timeout=timeout + 30)
    return rc == 0, out, "cd coq && " + cmd


# --------------------------------------------------------------------------
# Evaluating the model inside Coq
# --------------------------------------------------------------------------
def _coqc_text(path, text, timeout):
    with open(path, "w") as fh:
        fh.write(text)
    d, f = os.path.split(path)
    rc, out, dt = sh("timeout %d coqc -w -all -Q %s PV %s" % (timeout, COQ, f), cwd=d, timeout=timeout + 20)
    for ext in (".vo", ".vok", ".vos", ".glob"):
        try:
            os.unlink(path[:-2] + ext)
        except OSError:
            pass
    try:
        os.unlink(d + "/." + f[:-2] + ".aux")
    except OSError:
        pass
    return rc, out


def parse_nlist(out):
    """parse `= [1; 2]%N : list N` (possibly wrapped)"""
    m = re.search(r"=\s*(\[[^\]]*\]|nil)(%N)?\s*:\s*list N", out, re.S)
    if not m:
        return None
    body = m.group(1)
    if body == "nil":
        return []
    return [int(x) for x in re.findall(r"\d+", body)]


def run_model(prop, unit, imports, model, cases, ctype, shard=300, timeout=600):
    """cases: list of (coq_input_text, coq_expected_val_text).  Returns
    (mismatch_indexes, errors:list[str]).  The comparison itself is done by
    Coq (`mismatches` in Lib/Base.v), only indexes are printed."""
    d = "%s/%s" % (WORK, prop)
    os.makedirs(d, exist_ok=True)
    jobs = []
    for k in range(0, len(cases), shard):
        chunk = cases[k:k + shard]
        body = ";\n ".join("(%s, %s)" % (i, e) for i, e in chunk)
        text = ("From PV Require Import Lib.Base %s.\nOpen Scope N_scope.\n"
                "Definition cases : list (%s * val) := [\n %s\n].\n"
                "Eval vm_compute in (mismatches (%s) cases).\n" % (imports, ctype, body, model))
        jobs.append((k, "%s/cases_%s_%d.v" % (d, unit, k), text))
    mism, errors = [], []

    def one(job):
        k, path, text = job
        rc, out = _coqc_text(path, text, timeout)
        return k, path, rc, out
    with ThreadPoolExecutor(NCPU) as ex:
        for k, path, rc, out in ex.map(one, jobs):
            lst = parse_nlist(out) if rc == 0 else None
            if lst is None:
                errors.append("%s: rc=%s %s" % (path, rc, out[-1500:]))
            else:
                mism += [k + i for i in lst]
                try:
                    os.unlink(path)
                except OSError:
                    pass
    return sorted(mism), errors


def eval_model(prop, imports, exprs, timeout=300):
    """evaluate Coq expressions, return raw printed text for each (for reports)"""
    d = "%s/%s" % (WORK, prop)
    os.makedirs(d, exist_ok=True)
    text = "From PV Require Import Lib.Base %s.\nOpen Scope N_scope.\n" % imports
    for e in exprs:
        text += "Eval vm_compute in (%s).\n" % e
    rc, out = _coqc_text("%s/eval_%d.v" % (d, os.getpid()), text, timeout)
    parts = [p.strip() for p in re.split(r"^\s*=\s", out, flags=re.M)[1:]]
    return parts if rc == 0 else ["coqc failed: " + out[-800:]]


# --------------------------------------------------------------------------
# Context of one check run
# --------------------------------------------------------------------------
class Disagreement(object):
    def __init__(self, unit, case, impl, model=None, key=None):
        self.unit, self.case, self.impl, self.model, self.key = unit, case, impl, model, key


class Ctx(object):
    def __init__(self, prop, tier, seed):
        self.prop, self.tier, self.seed = prop, tier, seed
        self.rng = random.Random(seed)
        self.t0 = time.time()
        self.work = "%s/%s" % (WORK, prop)
        os.makedirs(self.work, exist_ok=True)
        self.evaluations = 0
        self.nontrivial = set()
        self.samples = []
        self.distribution = {}
        self.units = {}
        self.disagreements = []      # model vs implementation
        self.oracle_failures = []    # (key, description, replay-input): property fails on the implementation
        self.notes = []
        self.trusted = []
        self.assumptions = []
        self.checker_cmds = []
        self.broken = []             # broken obligations: (name, log excerpt)
        self.obligations = 0
        self.discharged = 0
        self.rule = ""
        self.exhaustive = None
        self.extra = {}
        self.known_lines = []

    @property
    def quick(self):
        return self.tier != "thorough"

    def count(self, key, n=1):
        self.distribution[key] = self.distribution.get(key, 0) + n

    def nontriv(self, obj):
        self.nontrivial.add(hashlib.sha1(repr(obj).encode("utf8", "replace")).hexdigest())

    def sample(self, obj, limit=6):
        if len(self.samples) < limit:
            self.samples.append(jsonable(obj))

    def unit(self, name, **kw):
        u = self.units.setdefault(name, {"cases": 0, "disagreements": 0})
        for k, v in kw.items():
            u[k] = u.get(k, 0) + v if isinstance(v, int) and not isinstance(v, bool) else v

    # ---- correspondence: compare model and implementation on cases ----------
    def correspond(self, unit, imports, model, ctype, cases, shard=300, timeout=600):
        """cases: list of dict(id=…, coq=<input term>, impl=<python value>, show=<json>)"""
        if not cases:
            return []
        pairs = [(c["coq"], cval(c["impl"])) for c in cases]
        mism, errors = run_model(self.prop, unit, imports, model, pairs, ctype, shard, timeout)
        self.evaluations += len(cases)
        self.unit(unit, cases=len(cases), disagreements=len(mism))
        for e in errors:
            self.broken.append(("model-evaluation:" + unit, e))
        out = []
        if mism:
            exprs = ["(%s) (%s)" % (model, cases[i]["coq"]) for i in mism[:8]]
            shown = eval_model(self.prop, imports, exprs)
            for j, i in enumerate(mism):
                d = Disagreement(unit, cases[i], cases[i]["impl"], shown[j] if j < len(shown) else None)
                self.disagreements.append(d)
                out.append(d)
        return out

    def oracle_fail(self, key, what, replay):
        self.oracle_failures.append((key, what, replay))


# --------------------------------------------------------------------------
# known findings
# --------------------------------------------------------------------------
def load_known():
    try:
        with open(VERIF + "/known_findings.json") as f:
            return json.load(f)
    except OSError:
        return {"findings": [], "fixed": []}


def known_keys(prop):
    return {f["key"]: f for f in load_known().get("findings", []) if f["property"] == prop}


# --------------------------------------------------------------------------
# finishing a run
# --------------------------------------------------------------------------
def write_replay(ctx, kind, payload):
    n = 0
    while os.path.exists("%s/replay-%d.json" % (ctx.work, n)):
        n += 1
    path = "%s/replay-%d.json" % (ctx.work, n)
    payload = dict(payload, property=ctx.prop, kind=kind, seed=ctx.seed, tier=ctx.tier)
    with open(path, "w") as f:
        json.dump(jsonable(payload), f, indent=1)
    return path


def write_evidence(ctx, violations):
    cov = {
        "obligations": ctx.obligations,
        "discharged": ctx.discharged,
        "checker_cmd": " ; ".join(ctx.checker_cmds) or "none",
        "trusted_base": ctx.trusted,
        "evaluations": ctx.evaluations,
        "distinct_nontrivial": len(ctx.nontrivial),
        "rule": ctx.rule,
        "samples": ctx.samples or ["(no sample)"],
        "traces_validated_against_impl": ctx.evaluations,
        "disagreements_checked": ctx.evaluations,
        "distribution": ctx.distribution,
        "correspondence_units": ctx.units,
        "notes": ctx.notes,
        "known_findings_reported": ctx.known_lines,
    }
    if ctx.exhaustive is not None:
        cov["exhaustive"] = ctx.exhaustive
    cov.update(ctx.extra)
    ev = {
        "property_id": ctx.prop,
        "tier": "thorough" if ctx.tier == "thorough" else "quick",
        "seed": ctx.seed,
        "level": "proof",
        "coverage": cov,
        "assumptions": ctx.assumptions,
        "wall_s": round(time.time() - ctx.t0, 2),
        "violations": violations,
    }
    # evidence/ describes runs against /repo itself; a run against a scratch copy (VERIF_REPO: a builder's
    # proposed fix, a seeded change under ./trymut) leaves its record under .work/ instead
    if REPO == "/repo":
        os.makedirs(VERIF + "/evidence", exist_ok=True)
        path = "%s/evidence/%s.json" % (VERIF, ctx.prop)
    else:
        ev["repo"] = REPO
        path = "%s/evidence-scratch.json" % ctx.work
    with open(path, "w") as f:
        json.dump(jsonable(ev), f, indent=1)
