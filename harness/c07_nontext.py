"""C07, identity values that are NOT text (what SQL / JSON / LDAP back ends deliver): int, bool, float, bytes, None, nested
list, tuple, dict as attribute VALUES of attributes whose attribute_restrictions entry is a LIST of regular expressions, next
to ordinary strings, one and several values per attribute, under `default` and per-SP entries, idp and aa policies.

The property on these inputs: a value that is not a text matching one of the expressions must not appear in what is released
-- whatever its type; str(value) matching an expression is not the value matching it.  Raising (no response at all) is fine
and is what the library does today (re.match on a non-str raises TypeError, which leaves create_authn_response /
create_attribute_response / Policy.filter / Policy.restrict).

Units (model: Model/PolicyVal.v, values as a sum type text | other kind):
  nontext_favs      filter_attribute_value_assertions on typed value lists
  nontext_restrict  Policy.restrict / Policy.filter on ONE long-lived Policy per world
  nontext_e2e       create_authn_response / create_attribute_response / setup_assertion on ONE long-lived Server per world
Compared: released names + value sets, or `raised` (the exception class is not property-relevant).
Oracle key: attribute-restrictions:non-text-value-released:<type>.
"""
import env
import copy
import json
import re

from core import Exn, cstr, cbool, copt, clist

SENT = "\U0010FFFF"          # the model's marker of a non-text value (a Unicode non-character; never in a generated text)

NT_VALUES = {
    "int": [5, 0, 12345, -7],
    "bool": [True, False],
    "float": [5.0, 1.5],
    "bytes": [b"55", b"anna", b"a@example.org"],
    "NoneType": [None],
    "list": [["5"], ["anna", "x"], []],
    "tuple": [("5",), ("anna", "5")],
    "dict": [{"a": "5"}, {}],
}
NT_TYPES = list(NT_VALUES)
# restriction lists whose expressions match str(value) / the XML rendering of the non-text values above, with texts that
# match one / none of the expressions (near-misses of the renderings)
NT_LISTS = [
    (["\\d+$", "anna"], ["5", "5x", "anna", "12345", "x5", "0"]),
    (["True|False|None", "true$|false$"], ["True", "None", "true", "Nonsense", "no", "false"]),
    ([".*"], ["x", "", "5"]),
    (["-?[0-9.]+$", "b'.*"], ["5.0", "-7", "1.5", "b'55'", "b", "1.5e"]),
    (["\\[.*", "\\(.*", "\\{.*"], ["['5']", "[]", "('5',)", "{}", "x[", "{'a': '5'}"]),
    (["a@example\\.org$", "55?$"], ["a@example.org", "55", "5", "555", "b@example.org"]),
    (["anna$", "x$", "a$"], ["anna", "x", "a", "annax", "ax", "b"]),
]
NT_NAMES = ["mail", "sn", "cn", "givenName", "displayName", "eduPersonScopedAffiliation", "eduPersonPrincipalName"]


def tname(v):
    return type(v).__name__


def is_text(v):
    return isinstance(v, str)


def enc(v):
    """the model's view of one identity value: a text is itself, anything else is (kind, str(value)) behind the marker"""
    if is_text(v):
        return v
    return SENT + tname(v) + SENT + str(v)


def tag(v):
    """json-able, reversible description of a value (for show / replay)"""
    if is_text(v):
        return v
    if isinstance(v, bytes):
        return {"bytes": v.decode("latin1")}
    if isinstance(v, tuple):
        return {"tuple": [tag(x) for x in v]}
    if isinstance(v, list):
        return {"list": [tag(x) for x in v]}
    if isinstance(v, dict):
        return {"dict": [[tag(k), tag(x)] for k, x in v.items()]}
    if v is None:
        return {"none": 1}
    if isinstance(v, bool):
        return {"bool": v}
    if isinstance(v, int):
        return {"int": v}
    if isinstance(v, float):
        return {"float": v}
    raise TypeError(v)


def untag(t):
    if isinstance(t, str):
        return t
    (k, x), = t.items()
    if k == "bytes":
        return x.encode("latin1")
    if k == "tuple":
        return tuple(untag(y) for y in x)
    if k == "list":
        return [untag(y) for y in x]
    if k == "dict":
        return {untag(a): untag(b) for a, b in x}
    if k == "none":
        return None
    return x


def tag_ident(ident):
    return {k: [tag(v) for v in vs] for k, vs in ident.items()}


def untag_ident(t):
    return {k: [untag(v) for v in vs] for k, vs in t.items()}


def c_value(v):
    if is_text(v):
        return "(VText %s)" % cstr(v)
    return "(VOther %s)" % cstr(tname(v) + SENT + str(v))


def c_vident(ident):
    return clist(list(ident.items()), lambda kv: "(%s, %s)" % (cstr(kv[0]), clist(kv[1], c_value)))


def renderings(v):
    """texts under which a non-text value could come out of a response"""
    out = {str(v), repr(v)}
    if isinstance(v, bool):
        out |= {"true", "false", "1", "0"}
    elif isinstance(v, bytes):
        out.add(v.decode("latin1"))
    elif isinstance(v, float):
        out |= {"%g" % v, "%d" % v}
    elif v is None:
        out.add("")
    elif isinstance(v, (list, tuple)):
        for x in v:
            out |= renderings(x) if not is_text(x) else {x}
        out.add(" ".join(map(str, v)))
    elif isinstance(v, dict):
        for k, x in v.items():
            out |= {str(k), str(x)}
    return out


def nontext_violation(pats, ivals, released):
    """pats: the expression list of this attribute (non-empty); ivals: its identity values (any type); released: the values
    released for it (python objects at function level, texts read from the XML end-to-end).
    -> None | (oracle key suffix, detail)"""
    texts = [v for v in ivals if is_text(v)]
    for x in released:
        if is_text(x) and x in texts and any(re.compile(p).match(x) for p in pats):
            continue
        if not is_text(x):
            return "non-text-value-released:%s" % tname(x), "%r" % (x,)
        for v in ivals:
            if not is_text(v) and x in renderings(v):
                return "non-text-value-released:%s" % tname(v), "%r released for the %s value %r" % (x, tname(v), v)
        return None          # a text-level violation: judged by the ordinary oracle
    return None


def canon_typed(a):
    return [[k, sorted({enc(v) for v in a[k]})] for k in sorted(a)]


def hashable(v):
    try:
        hash(v)
        return True
    except TypeError:
        return False


# ------------------------------------------------------------------------------------------------------------------
def nt_world(P, rng, modules, variant):
    lt = {"minutes": 15}
    n = len(NT_LISTS)
    sps = [
        {"eid": "https://nt0.example.org/sp", "acs": [], "ecs": None},
        {"eid": "https://nt1.example.org/sp", "acs": [], "ecs": None},
        {"eid": "https://nt2.example.org/sp", "ecs": None,
         "acs": [[P._ra(nm, False, "uri" if i % 2 else "friendly") for i, nm in enumerate(NT_NAMES)] + [P._ra("o", False)]]},
        {"eid": "https://nt3.example.org/sp", "acs": [], "ecs": None},
        {"eid": "https://nt4.example.org/sp", "ecs": None,
         "acs": [[P._ra("o", True, values=["never-held"]), P._ra("mail", False), P._ra("sn", False, "friendly"), P._ra("cn", False)]]},
        {"eid": "https://nt5.example.org/sp", "acs": [], "ecs": [P.RS_REFEDS]},
    ]

    def ar(shift, upper=False):
        d = {(nm.upper() if upper and i % 2 else nm): list(NT_LISTS[(i + shift) % n][0]) for i, nm in enumerate(NT_NAMES)}
        d["o"] = None
        return d
    pol = {"default": {"lifetime": lt, "attribute_restrictions": ar(0 + variant, True)},
           sps[1]["eid"]: {"lifetime": lt, "attribute_restrictions": ar(1 + variant)},
           sps[3]["eid"]: {"lifetime": lt, "fail_on_missing_requested": False},
           sps[5]["eid"]: {"lifetime": lt, "attribute_restrictions": ar(2 + variant), "entity_categories": ["refeds"]}}
    aa = {"default": {"lifetime": lt, "attribute_restrictions": ar(3 + variant)},
          sps[1]["eid"]: {"lifetime": lt, "attribute_restrictions": ar(0 + variant, True)},
          sps[4]["eid"]: {"lifetime": lt, "attribute_restrictions": ar(4 + variant), "fail_on_missing_requested": False}}
    if variant == 1:
        pol, aa = aa, pol
    return P.World(rng, 0, modules, fixed=(sps, pol, aa))


def pats_for(P, pol, eid, name):
    ar = P.applicable(pol, eid, "attribute_restrictions")
    if not ar:
        return None
    low = {k.lower(): v for k, v in ar.items()}
    return low.get(name.lower()) or None


def gen_nt_identities(P, rng, w, eid, pol, quick):
    """identities for this SP: every type under an attribute with an expression list: alone, next to matching / non-matching
    texts, several non-text values, a non-text value under an unlisted attribute, and text-only controls"""
    out = []
    names = [nm for nm in NT_NAMES if pats_for(P, pol, eid, nm)]
    if not names:
        return out
    for ti, t in enumerate(NT_TYPES):
        vals = NT_VALUES[t]
        for vi, v in enumerate(vals if not quick else vals[:2]):
            nm = names[(ti + vi) % len(names)]
            key = nm if (ti + vi) % 3 else nm.lower()
            pats = pats_for(P, pol, eid, nm)
            texts = [x for l, xs in NT_LISTS if l == pats for x in xs] or ["x"]
            good = [x for x in texts if any(re.compile(p).match(x) for p in pats)] or ["x"]
            bad = [x for x in texts if not any(re.compile(p).match(x) for p in pats)] or ["nomatch"]
            v2 = rng.choice(NT_VALUES[rng.choice(NT_TYPES)])
            shapes = [
                {key: [v]},
                {key: [rng.choice(good), v, rng.choice(bad)], "o": ["x"]},
                {key: [v, v2], "secret": ["s3cret"]},
                {key: [v, rng.choice(good)], "secret": [v2]},
                {key: list(good[:2]), "o": ["x"], "secret": [v]},                 # control: non-text only where nothing is listed
            ]
            if quick:
                shapes = [shapes[0], shapes[1 + (ti + vi) % 2], shapes[3 + (ti + vi) % 2]]
            out += shapes
    # the str() of each value as a TEXT next to it (released iff it matches: the released value IS that text)
    for t in NT_TYPES[::2 if quick else 1]:
        v = NT_VALUES[t][0]
        nm = rng.choice(names)
        out.append({nm: [str(v)], "o": ["x"]})
        out.append({nm: [str(v), v]})
    return out


def unit_nontext(ctx, P, correspond=True):
    rng = ctx.rng
    import translate_c07
    from saml2_tophat import assertion as A
    from saml2_tophat import saml, samlp
    modules = translate_c07.ec_module_names()
    per = {"nontext_favs": [], "nontext_restrict": [], "nontext_pfilter": [], "nontext_authn": [], "nontext_setup": [],
           "nontext_attribute": []}

    def check_texts(ident):
        for vs in ident.values():
            for v in vs:
                if is_text(v) and SENT in v:
                    raise RuntimeError("generated text contains the model's non-text marker")

    def judge_nt(site, pol, eid, ident, released, replay, function_level):
        """released: dict name -> values (python objects when function_level, texts otherwise)"""
        hit = False
        for n, vs in released.items():
            pats = pats_for(P, pol, eid, n)
            if not pats:
                continue
            v = nontext_violation(pats, ident.get(n, []), vs)
            if v:
                hit = True
                ctx.oracle_fail("attribute-restrictions:%s" % v[0],
                                "%s for %s released %s=%r (%s) although the attribute is restricted to %r; identity %r" % (
                                    site, eid, n, vs, v[1], pats, ident), replay)
        return hit

    # ---- function level: filter_attribute_value_assertions on typed lists ------------------------------------------
    nf = 160 if ctx.quick else 1600
    for i in range(nf):
        lst, texts = NT_LISTS[i % len(NT_LISTS)]
        t = NT_TYPES[(i // len(NT_LISTS)) % len(NT_TYPES)]
        v = rng.choice(NT_VALUES[t])
        k = rng.choice(NT_NAMES)
        shape = i % 5
        vals = ([v], [rng.choice(texts), v], [v, rng.choice(texts), rng.choice(NT_VALUES[rng.choice(NT_TYPES)])],
                rng.sample(texts, 2) + [v], [rng.choice(texts)])[shape]
        ident = {k: vals, "o": [rng.choice(["x", v]) if hashable(v) else "x"], "secret": [v]}
        if rng.random() < 0.3:
            ident = dict(reversed(list(ident.items())))
        src = {k.lower(): list(lst), "o": None}
        if rng.random() < 0.3:
            src["secret"] = []          # an EMPTY list at function level: no expression is ever tried, nothing released
        check_texts(ident)
        comp = {a: (None if b is None else [re.compile(p) for p in b]) for a, b in src.items()}
        got = P.call(A.filter_attribute_value_assertions, copy.deepcopy(ident), comp)
        impl = ["raised"] if isinstance(got, Exn) else ["returns", canon_typed(got)]
        pats = sorted({p for b in src.values() for p in (b or [])})
        tbl = [(p, x) for p in pats for vs in ident.values() for x in vs if is_text(x) and re.compile(p).match(x)]
        coq = "(%s, %s, %s)" % (clist(sorted(set(tbl)), lambda r: "(%s, %s)" % (cstr(r[0]), cstr(r[1]))), c_vident(ident), P.c_rawar(src))
        per["nontext_favs"].append(dict(id=i, coq=coq, impl=impl, show={"identity": tag_ident(ident), "restrictions": src}))
        ctx.count("nontext(filter_attribute_value_assertions):%s:%s" % (t, impl[0]))
        ctx.nontriv(("nt-favs", json.dumps(tag_ident(ident), sort_keys=True), json.dumps(src, sort_keys=True)))
        if not isinstance(got, Exn):
            for n, vs in got.items():
                if src.get(n.lower()):
                    vv = nontext_violation(src[n.lower()], ident.get(n, []), vs)
                    if vv:
                        ctx.oracle_fail("attribute-restrictions:%s" % vv[0],
                                        "filter_attribute_value_assertions kept %s=%r (%s) under %r; identity %r" % (n, vs, vv[1], src[n.lower()], ident),
                                        {"unit": "nontext_favs", "identity": tag_ident(ident), "restrictions": src})

    # ---- worlds: one Server + one Policy each, sequences over the SPs ----------------------------------------------
    worlds = [nt_world(P, rng, modules, 0), nt_world(P, rng, modules, 1)]
    for wi, w in enumerate(worlds):
        seq = []
        for spd in w.sps:
            eid = spd["eid"]
            for j, ident in enumerate(gen_nt_identities(P, rng, w, eid, w.pol, ctx.quick)):
                seq.append((("authn", "restrict", "authn", "setup", "filter", "authn-rp")[j % 6], eid, ident))
            for j, ident in enumerate(gen_nt_identities(P, rng, w, eid, w.aa_pol, ctx.quick)):
                if j % 2 == 0 or not ctx.quick:
                    seq.append(("attr", eid, ident))
        rng.shuffle(seq)          # SPs, kinds and text-only / non-text identities interleaved on the long-lived objects
        for kind, eid, ident in seq:
            check_texts(ident)
            pol = w.aa_pol if kind == "attr" else w.pol
            view = w.view(eid)
            eident = {k: [enc(v) for v in vs] for k, vs in ident.items()}     # texts only: for the truth tables
            tident = {k: [v for v in vs if is_text(v)] for k, vs in ident.items()}
            pats = w.aa_patterns if kind == "attr" else w.patterns
            rep = {"policy": pol, "sps": w.sps, "sp": eid, "identity": tag_ident(ident)}
            types = sorted({tname(v) for vs in ident.values() for v in vs if not is_text(v)})

            def vcase(extra_decls=(), view_=view):
                return "{| v_rx := %s; v_ln := %s; v_pol := %s; v_sp := %s; v_md := %s; v_ident := %s |}" % (
                    clist(P.rx_table(pats, tident), lambda p: "(%s, %s)" % (cstr(p[0]), cstr(p[1]))),
                    clist(P.ln_table(w.acs, w.decls(eid) + list(extra_decls)), lambda r: "((%s, %s), %s)" % (cstr(r[0]), cstr(r[1]), cstr(r[2]))),
                    P.c_rawpolicy(pol if pol is not None else {}), cstr(eid), P.c_md(view_), c_vident(ident))
            show = {"world": "nontext-%d" % wi, "sp": eid, "identity": tag_ident(ident), "policy": pol, "sp_view": view}
            if kind in ("authn", "authn-rp", "attr", "setup"):
                be = None
                if kind == "attr":
                    got = P.call(P.do_attr, w.server, eid, ident)
                    site, unit = "attribute-response", "nontext_attribute"
                elif kind == "setup":
                    be = rng.random() < 0.5
                    got = P.call(setup_call, P, w, eid, ident, be, saml, samlp)
                    site, unit = "setup-assertion", "nontext_setup"
                else:
                    got = P.call(P.do_authn, w.server, eid, ident, w.policy if kind == "authn-rp" and w.pol else None)
                    site, unit = "authn-response", "nontext_authn"
                if isinstance(got, Exn):
                    impl, rel = ["raised"], None
                else:
                    impl, rel = P.outcome_val(got)
                coq = vcase() if be is None else "(%s, %s)" % (vcase(), cbool(be))
                if kind == "attr":
                    coq = "(%s, %s)" % (vcase(), cbool(w.aa_pol is not None))
                per[unit].append(dict(id=len(per[unit]), coq=coq, impl=impl, show=dict(show, best_effort=be)))
                if rel is not None:
                    judge_nt(site, pol, eid, ident, rel, dict(rep, unit=unit, best_effort=be), False)
                    # the ordinary release oracle on the text part (a released rendering of a non-text value is reported above)
                    trel = {k: [x for x in vs if x in tident.get(k, [])] for k, vs in rel.items()}
                    P.judge(ctx, site + "(non-text identity)", w, pol, eid, tident, {k: v for k, v in trel.items() if v or not rel[k]},
                            dict(rep, unit=unit, best_effort=be))
                ctx.count("nontext(%s):%s:%s" % (kind, (types[0] if len(types) == 1 else "several-kinds" if types else "text-only"), impl[0]))
            elif kind == "restrict":
                got = P.call(w.policy.restrict, copy.deepcopy(ident), eid, w.server.metadata)
                impl = ["raised"] if isinstance(got, Exn) else ["returns", canon_typed(got)]
                per["nontext_restrict"].append(dict(id=len(per["nontext_restrict"]), coq=vcase(), impl=impl, show=show))
                if not isinstance(got, Exn):
                    judge_nt("policy-restrict", pol, eid, ident, got, dict(rep, unit="nontext_restrict"), True)
                ctx.count("nontext(restrict):%s:%s" % ((types[0] if len(types) == 1 else "several-kinds" if types else "text-only"), impl[0]))
            else:
                rq = [P._ra(rng.choice(NT_NAMES), True)] if rng.random() < 0.3 else []
                op = [P._ra(nm, False, rng.choice(["uri", "friendly"])) for nm in rng.sample(NT_NAMES, 3)] + [P._ra("o", False)]
                got = P.call(w.policy.filter, copy.deepcopy(ident), eid, w.server.metadata, copy.deepcopy(rq), copy.deepcopy(op))
                impl = ["raised"] if isinstance(got, Exn) else ["returns", canon_typed(got)]
                v2 = dict(view, req=(rq, op))
                per["nontext_pfilter"].append(dict(id=len(per["nontext_pfilter"]),
                                                   coq="(%s, (%s, %s))" % (vcase(rq + op, v2), clist(rq, P.c_decl), clist(op, P.c_decl)),
                                                   impl=impl, show=dict(show, required=rq, optional=op)))
                if not isinstance(got, Exn):
                    judge_nt("policy-filter", pol, eid, ident, got, dict(rep, unit="nontext_pfilter", required=rq, optional=op), True)
                ctx.count("nontext(filter):%s:%s" % ((types[0] if len(types) == 1 else "several-kinds" if types else "text-only"), impl[0]))
            ctx.nontriv(("nt", wi, kind, eid, json.dumps(tag_ident(ident), sort_keys=True)))
            if len([s for s in ctx.samples if s.get("unit") == "nontext"]) < 2 and types:
                ctx.sample(dict(unit="nontext", kind=kind, sp=eid, identity=tag_ident(ident), policy=pol, outcome=impl))
    if correspond:
        ctx.correspond("nontext_favs", "Model.Policy Model.PolicyVal", "fun x => run_v_favs (fst (fst x)) (snd (fst x)) (snd x)",
                       "(list (str * str) * vava * restrictions)", per["nontext_favs"], shard=120)
        ctx.correspond("nontext_restrict", "Model.Policy Model.PolicyVal", "run_v_restrict", "vcase", per["nontext_restrict"], shard=60)
        ctx.correspond("nontext_pfilter", "Model.Policy Model.PolicyVal", "fun x => run_v_pfilter (fst x) (fst (snd x)) (snd (snd x))",
                       "(vcase * (list decl * list decl))", per["nontext_pfilter"], shard=60)
        ctx.correspond("nontext_authn", "Model.Policy Model.PolicyVal", "run_v_authn", "vcase", per["nontext_authn"], shard=60)
        ctx.correspond("nontext_setup", "Model.Policy Model.PolicyVal", "fun x => run_v_setup (fst x) (snd x)", "(vcase * bool)", per["nontext_setup"], shard=60)
        ctx.correspond("nontext_attribute", "Model.Policy Model.PolicyVal", "fun x => run_v_attribute (fst x) (snd x)", "(vcase * bool)",
                       per["nontext_attribute"], shard=60)
    else:
        ctx.evaluations += sum(len(v) for v in per.values())
    ctx.extra["nontext_cases"] = {k: len(v) for k, v in per.items()}


def setup_call(P, w, eid, ident, be, saml, samlp):
    r = w.server.setup_assertion({"class_ref": P.PASSWORD, "authn_auth": "x"}, eid, "req-1", eid + "/acs",
                                 saml.NameID(text="s", format=saml.NAMEID_FORMAT_PERSISTENT),
                                 w.server.config.getattr("policy", "idp"), env.issuer_of(w.server), None,
                                 copy.deepcopy(ident), be, False)
    if isinstance(r, saml.Assertion):
        out = {}
        for st in r.attribute_statement:
            for at in st.attribute:
                vals = [(v.extension_elements[0].text if v.extension_elements else v.text) or "" for v in at.attribute_value]
                out.setdefault(at.friendly_name if at.friendly_name is not None else at.name, []).extend(vals)
        return samlp.STATUS_SUCCESS, out
    return r.status.status_code.value, None


def replay(P, inp):
    from saml2_tophat import assertion as A
    from saml2_tophat import saml, samlp
    ident = untag_ident(inp["identity"])
    unit = inp["unit"]
    if unit == "nontext_favs":
        comp = {k: (None if v is None else [re.compile(p) for p in v]) for k, v in inp["restrictions"].items()}
        print("implementation:", P.call(A.filter_attribute_value_assertions, ident, comp))
        return
    w = P.World(None, 0, [], fixed=(inp["sps"], inp["policy"], inp["policy"]))
    if unit == "nontext_authn":
        got = P.call(P.do_authn, w.server, inp["sp"], ident)
    elif unit == "nontext_attribute":
        got = P.call(P.do_attr, w.server, inp["sp"], ident)
    elif unit == "nontext_setup":
        got = P.call(setup_call, P, w, inp["sp"], ident, bool(inp.get("best_effort")), saml, samlp)
    elif unit == "nontext_pfilter":
        got = P.call(w.policy.filter, ident, inp["sp"], w.server.metadata, inp["required"], inp["optional"])
    else:
        got = P.call(w.policy.restrict, ident, inp["sp"], w.server.metadata)
    print("implementation:", got)
