"""C17: hand-written / third-party SP metadata as an IdP may be given it — key descriptors with an OPTIONAL use
attribute, several role descriptors, several X509Data, several entities per source, several sources — rendered to real
metadata XML, as a Model.CertSelect.mdstore term, and read in the property's own words (which certificates does the
SP's entity offer for encryption).

A layout is a list of SOURCES (each becomes one entry of the IdP's metadata configuration, in this order);
a source is a list of (who, roles): who = "sp" (the service provider the response is made for) or any other tag (another
entity); roles = [(role type, [(use | None, [harness certificate name | None = text that is no certificate])])]."""
import env
from core import cstr, copt, clist
from saml2_tophat import md, xmldsig as ds, BINDING_SOAP, BINDING_HTTP_REDIRECT
from saml2_tophat.config import SPConfig

SAML2P = "urn:oasis:names:tc:SAML:2.0:protocol"
GARBAGE_CERT = "QUJDREVGRw=="
# the order in which MetaData.certs(entity, "any", use) visits the role descriptor types
ANY_ORDER = ["spsso", "idpsso", "authn_authority", "attribute_authority", "pdp"]

S, E_, U = "signing", "encryption", None

LAYOUTS = {
    # (a) key descriptors without a use attribute
    "useless": [[("sp", [("spsso", [(U, ["sp"])])])]],
    "useless+sign": [[("sp", [("spsso", [(U, ["sp"]), (S, ["sp2"])])])]],
    "sign+useless": [[("sp", [("spsso", [(S, ["sp2"]), (U, ["sp"])])])]],
    "signonly": [[("x", [("spsso", [(E_, ["sp2"])])]), ("sp", [("spsso", [(S, ["sp"])])])]],
    "otherrole-useless": [[("sp", [("spsso", [(S, ["sp2"])]), ("attribute_authority", [(U, ["sp"])])])]],
    "otherrole-enc": [[("sp", [("spsso", [(S, ["sp"])]), ("pdp", [(E_, ["sp2"])])])]],
    "otherrole-signonly": [[("sp", [("spsso", [(S, ["sp"])]), ("attribute_authority", [(S, ["sp2"])])])]],
    "useless-other-entity": [[("sp", [("spsso", [(S, ["sp"])])]), ("x", [("spsso", [(U, ["sp2"])])])]],
    "useless-garbage+enc": [[("sp", [("spsso", [(U, [None]), (E_, ["sp2"])])])]],
    "useless+enc-same": [[("sp", [("spsso", [(U, ["sp"]), (E_, ["sp"])])])]],
    "nokeys": [[("sp", [("spsso", [])])]],
    # (b) only a later descriptor / certificate / role / entity / source is usable
    "idp-before-sp": [[("sp", [("idpsso", [(E_, ["sp2"])]), ("spsso", [(E_, ["sp"])])])]],
    "two-spsso": [[("sp", [("spsso", [(S, ["sp2"])]), ("spsso", [(E_, ["sp"])])])]],
    "two-x509": [[("sp", [("spsso", [(E_, [None, "sp"])])])]],
    "garb-garb-sp": [[("sp", [("spsso", [(S, ["sp"]), (E_, [None]), (U, [None, None]), (E_, ["sp2"])])])]],
    "garb-role-then-sp": [[("sp", [("spsso", [(E_, [None])]), ("attribute_authority", [(U, ["sp"])])])]],
    "wrapped-later": [[("x", [("spsso", [(E_, ["sp2"])])]), ("sp", [("spsso", [(S, ["sp2"]), (U, ["sp"])])])]],
    "later-source": [[("x", [("spsso", [(E_, ["sp2"])])])], [("sp", [("spsso", [(S, ["sp2"]), (E_, ["sp"])])])]],
    "src-sign-then-enc": [[("sp", [("spsso", [(S, ["sp"])])])], [("sp", [("spsso", [(E_, ["sp"])])])]],
    "src-enc-then-sign": [[("sp", [("spsso", [(E_, ["sp2"])])])], [("sp", [("spsso", [(S, ["sp"])])])]],
    "src-dup-entity": [[("x", [("spsso", [(E_, ["sp2"])])]), ("sp", [("spsso", [(U, ["sp2"])])]), ("sp", [("spsso", [(E_, ["sp"])])])]],
    # (c) key descriptors WITHOUT X509Data (certificate list []: a KeyName / KeyValue only).  MetaData.certs skips them
    # (proposed_fix/C03-1); before that repair certs(sp, any, encryption) raised KeyError and no response was built
    "keyname+enc": [[("sp", [("spsso", [(E_, []), (E_, ["sp"])])])]],
    "enc+useless-keyname": [[("sp", [("spsso", [(E_, ["sp"]), (U, [])])])]],
    "keyname-otherrole": [[("sp", [("spsso", [(S, ["sp2"]), (E_, ["sp"])]), ("pdp", [(E_, [])])])]],
    "enc-keyname-only": [[("sp", [("spsso", [(S, ["sp"]), (E_, [])])])]],
    "sign-keyname+enc": [[("sp", [("spsso", [(S, []), (E_, ["sp"])])])]],
    "keyname-garbage-sp": [[("sp", [("spsso", [(U, []), (E_, [None]), (E_, []), (U, ["sp"])])])]],
}


def random_layout(rng):
    """a random federation around the SP (certificates sp / sp2 / garbage only, so that the round trip needs no third key)"""
    certs = ["sp", "sp", "sp2", None]

    def kds():
        out = []
        for _ in range(rng.choice([0, 1, 1, 2, 2, 3])):
            out.append((rng.choice([U, U, S, S, E_]), [rng.choice(certs) for _ in range(rng.choice([1, 1, 1, 2, 0]))]))
        return out

    def roles():
        rs = [("spsso", kds())]
        for t in ("spsso", "idpsso", "attribute_authority", "pdp"):
            if rng.random() < 0.25:
                rs.append((t, kds()))
        rng.shuffle(rs)
        return rs
    srcs = []
    placed = False
    for _ in range(rng.choice([1, 1, 2, 3])):
        src = []
        for _ in range(rng.choice([1, 1, 2])):
            who = rng.choice(["sp", "x", "y"])
            src.append((who, roles()))
            placed = placed or who == "sp"
        srcs.append(src)
    if not placed:
        srcs[-1].append(("sp", roles()))
    return srcs


def entity_id(layout_name, who):
    return "https://%s-%s.example.org/sp" % ("sp" if who == "sp" else "other-" + who, layout_name)


# ---------------------------------------------------------------------------------------------------------
# real XML
# ---------------------------------------------------------------------------------------------------------
def _kd(use, certs):
    xs = [ds.X509Data(x509_certificate=ds.X509Certificate(text=GARBAGE_CERT if c is None else env.cert_b64(c))) for c in certs]
    if not xs:      # no X509Data at all: a KeyName (use given) or an RSA KeyValue (no use attribute)
        if use is None:
            return md.KeyDescriptor(use=use, key_info=ds.KeyInfo(key_value=[ds.KeyValue(rsa_key_value=ds.RSAKeyValue(
                modulus=ds.Modulus(text="AQAB"), exponent=ds.Exponent(text="AQAB")))]))
        return md.KeyDescriptor(use=use, key_info=ds.KeyInfo(key_name=[ds.KeyName(text="some-key")]))
    return md.KeyDescriptor(use=use, key_info=ds.KeyInfo(x509_data=xs))


def _entity(eid, roles):
    base = md.entity_descriptor_from_string(env.cached_md("c17-sp0", env.sp_conf(), SPConfig))
    sp0 = str(base.spsso_descriptor[0])
    ed = md.EntityDescriptor(entity_id=eid)
    for typ, kds in roles:
        k = [_kd(u, cs) for u, cs in kds]
        if typ == "spsso":
            d = md.spsso_descriptor_from_string(sp0)
            d.key_descriptor = k
            ed.spsso_descriptor.append(d)
        elif typ == "idpsso":
            ed.idpsso_descriptor.append(md.IDPSSODescriptor(
                protocol_support_enumeration=SAML2P, key_descriptor=k,
                single_sign_on_service=[md.SingleSignOnService(binding=BINDING_HTTP_REDIRECT, location="https://x.example.org/sso")]))
        elif typ == "attribute_authority":
            ed.attribute_authority_descriptor.append(md.AttributeAuthorityDescriptor(
                protocol_support_enumeration=SAML2P, key_descriptor=k,
                attribute_service=[md.AttributeService(binding=BINDING_SOAP, location="https://x.example.org/aa")]))
        elif typ == "pdp":
            ed.pdp_descriptor.append(md.PDPDescriptor(
                protocol_support_enumeration=SAML2P, key_descriptor=k,
                authz_service=[md.AuthzService(binding=BINDING_SOAP, location="https://x.example.org/pdp")]))
        else:
            raise ValueError(typ)
    return ed


def render(name, layout):
    """[metadata XML text per source]: a single entity is an EntityDescriptor document, several an EntitiesDescriptor"""
    out = []
    for src in layout:
        eds = [_entity(entity_id(name, who), roles) for who, roles in src]
        out.append(str(eds[0]) if len(eds) == 1 else str(md.EntitiesDescriptor(entity_descriptor=eds)))
    return out


# ---------------------------------------------------------------------------------------------------------
# the store as Model.CertSelect sees it: entries in lookup order; per entity one `role` per descriptor TYPE in
# the order certs() visits the types, holding the key descriptors of all descriptors of that type in document order
# ---------------------------------------------------------------------------------------------------------
def _by_type(roles):
    out = []
    for t in ANY_ORDER:
        kds = [kd for typ, ks in roles if typ == t for kd in ks]
        if any(typ == t for typ, _ in roles):
            out.append(kds)
    return out


def coq_store(name, layout, keyid):
    ents = []
    for src in layout:
        seen = set()
        for who, roles in src:
            if who in seen:
                continue                      # a source keeps the FIRST entity descriptor with an id
            seen.add(who)
            ents.append((entity_id(name, who), _by_type(roles)))
    return clist(ents, lambda e: "(%s, %s)" % (cstr(e[0]), clist(e[1], lambda r: clist(r, lambda kd: "{| kd_use := %s; kd_certs := %s |}" % (
        copt(kd[0], cstr), clist(kd[1], lambda c: "0" if c is None else "%d" % keyid[c]))))))


# ---------------------------------------------------------------------------------------------------------
# the property's own reading (no model): the certificates the SP's entity offers for encryption, in the order the
# IdP tries them.  The entity = the one the store serves for the id: first source that has it, first descriptor in it.
# ---------------------------------------------------------------------------------------------------------
def served_roles(layout):
    for src in layout:
        for who, roles in src:
            if who == "sp":
                return roles
    return None


def enc_certs(layout):
    roles = served_roles(layout)
    out = []
    for t in ANY_ORDER:
        part = []
        for typ, kds in roles:
            if typ != t:
                continue
            for use, certs in kds:
                if use in (None, "encryption"):
                    for c in certs:
                        if c not in part:
                            part.append(c)
        out += part
    return out


def describe(layout):
    return [[(who, [(t, [(u or "-", [c or "garbage" for c in cs]) for u, cs in kds]) for t, kds in roles]) for who, roles in src] for src in layout]
