"""C17, decrypted assertions in a SIGNED response.

A valid response signature covers the ciphertext, not what is inside it after decryption.  This module
crosses
    {response unsigned, validly signed (, corrupt)} x {assertion plain, encrypted for the first / second key}
  x {assertion signature absent, valid, corrupt (SignatureValue altered), tampered (content altered after
     signing and BEFORE encryption), wrongkey (signed with a foreign key)}
  x the 8 settings want_response_signed x want_assertions_signed x want_assertions_or_response_signed
on the flat pipeline (Model.Response.parse_response through Model.Encrypt.show_pipeline_run), and runs the
document trees of enc_tree (advice / nested / several EncryptedAssertions) under a signed <Response>.

Nothing here is shared with other properties' checks; pipeline.py is only read.
"""
import itertools

import env
import enc_tree
import pipeline
import resp
from core import Exn
from env import NOW
from saml2_tophat import saml, samlp, sigver, class_name

ASIGS = [None, "valid", "corrupt", "tampered", "wrongkey"]
BAD = ("corrupt", "tampered", "wrongkey")
RSIGS = [None, "valid"]
SETTINGS = [dict(wrs=a, was=b, waors=c) for a, b, c in itertools.product([False, True], repeat=3)]
GIVEN = "Anna"
TAMPERED_GIVEN = "Anne"


def build_xml(spec):
    """pipeline.build_xml with one more step: an assertion whose 'sig' is 'tampered' is signed with the right key and its
    content (an attribute value) is altered AFTER signing and BEFORE encryption / before the response is signed"""
    env.tool_inprocess(True)
    sp = spec.get("spelling", "Z")
    plain = [(a, pipeline._assertion_obj(a, sp)) for a in spec["assertions"]]
    enc = [(a, pipeline._assertion_obj(a, sp)) for a in spec.get("encrypted", [])]
    r = samlp.Response(id=spec["id"], in_response_to=spec.get("irt"), version=spec["version"],
                       issue_instant=pipeline.spell(spec["issue_instant"], sp), destination=spec.get("destination"),
                       issuer=saml.Issuer(text=spec["issuer"]) if spec.get("issuer") is not None else None,
                       status=resp._status(spec.get("status")), assertion=[o for _, o in plain])
    to_sign = []
    for a, o in plain + enc:
        if a.get("sig"):
            o.signature = sigver.pre_signature_part(o.id, env.cert_b64("idp"))
            to_sign.append((class_name(o), o.id, a["sig"]))
    if enc:
        r.encrypted_assertion = []
        for a, o in enc:
            ea = saml.EncryptedAssertion()
            ea.add_extension_element(o)
            r.encrypted_assertion.append(ea)
    if spec.get("sig"):
        r.signature = sigver.pre_signature_part(r.id, env.cert_b64("idp"))
    text = str(r)
    for node_name, node_id, how in to_sign:
        text = pipeline._sign(text, node_name, node_id, how)
        if how == "tampered":
            assert text.count(">%s<" % GIVEN) == 1
            text = text.replace(">%s<" % GIVEN, ">%s<" % TAMPERED_GIVEN)
    for a, o in enc:
        certfile = env.cert(a.get("enc_for", "sp"))
        xpath = '/*[local-name()="Response"]/*[local-name()="EncryptedAssertion"]/*[local-name()="Assertion"]'
        text = resp.signer("idp").crypto.encrypt_assertion(text, certfile, sigver.pre_encryption_part(), node_xpath=xpath)
    if spec.get("sig"):
        text = pipeline._sign(text, class_name(r), r.id, spec["sig"])
    return text


def render_signed_tree(kids, rsig):
    """enc_tree.render_response under a <Response> that is signed AFTER everything inside it was signed / encrypted"""
    rspec = pipeline.R(assertions=[])
    r = samlp.Response(id=rspec["id"], in_response_to=rspec.get("irt"), version=rspec["version"],
                       issue_instant=pipeline.spell(rspec["issue_instant"], "Z"), destination=rspec.get("destination"),
                       issuer=saml.Issuer(text=rspec["issuer"]), status=resp._status(rspec.get("status")))
    if rsig:
        r.signature = sigver.pre_signature_part(r.id, env.cert_b64("idp"))
    text = str(r)
    i = text.rindex("</")
    text = text[:i] + "".join(enc_tree.render(k) for k in kids) + text[i:]
    if rsig:
        text = pipeline._sign(text, class_name(r), r.id, rsig)
    return text


def must_reject(rsig, asig, setting, mut=None):
    """the property, on the generation spec: what the SP has to refuse (the assertion is the only one of the response)"""
    return bool(mut is not None or asig in BAD or rsig in BAD
                or (setting["was"] and not asig) or (setting["wrs"] and not rsig)
                or (setting["waors"] and not asig and not rsig))


def setting_tag(s):
    return "+".join(k for k in ("wrs", "was", "waors") if s[k]) or "-"
