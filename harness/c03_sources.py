"""C03 metadata sources other than local files: a fake network for the MDQ / MDX source
(`mdstore.MetaDataMDX`, configuration key "mdq": one lazy HTTP GET per entity id through
`saml2_tophat.mdstore.requests.get`) and the `remote` source (`MetaDataExtern` through
`HTTPBase.send` -> `requests.request`), and clients (long-lived Saml2Client objects) described by data.

source   = dict(typ="mdq", answers={issuer name: [answer, ...]})       lazily asked; the n-th request for an id gets
                                                                        the n-th answer (the last one repeats; no entry: 404)
         | dict(typ="inline" | "remote", fed=[(issuer name, layout)])   loaded when the client is built
answer   = dict(kind="ents", ents=[(issuer name, layout)])              200: one EntityDescriptor, or an EntitiesDescriptor
                                                                        when several (or agg=True)
         | dict(kind="status", status=404 | 500, ents=[...])            body ignored by the library
         | dict(kind="empty") | dict(kind="garbage") | dict(kind="other-xml")
client   = dict(name=, sources=[source ...] (the order of the configuration), only_md=True | False | None)
"""
import copy
import hashlib

import requests

import env


class FakeResponse(object):
    def __init__(self, status, content):
        self.status_code = status
        self.content = content
        self.text = content.decode("utf-8", "replace")
        self.headers = {}
        self.ok = status == 200


def _strip_decl(text):
    if text.startswith("<?xml"):
        text = text[text.index("?>") + 2:].lstrip()
    return text


def aggregate(xmls):
    return ('<?xml version="1.0"?><md:EntitiesDescriptor xmlns:md="urn:oasis:names:tc:SAML:2.0:metadata">%s</md:EntitiesDescriptor>'
            % "".join(_strip_decl(x) for x in xmls))


def sha1_id(entity_id):
    return "{sha1}" + hashlib.sha1(entity_id.encode("utf-8")).hexdigest()


class Net(object):
    """the network as the library sees it while installed: requests.get / requests.request answered from routes"""

    def __init__(self, render):
        self.render = render          # (issuer name, layout) -> EntityDescriptor XML
        self.routes = {}              # url -> [answer ...]
        self.asked = {}               # url -> number of requests so far
        self.served = {}              # url prefix (client) -> descriptors [(issuer name, layout)] handed out with status 200
        self.owner = {}               # url -> client name
        self.log = []
        self._saved = None

    def install(self):
        self._saved = (requests.get, requests.request)
        requests.get = self._get
        requests.request = self._request

    def restore(self):
        if self._saved:
            requests.get, requests.request = self._saved
            self._saved = None

    def route(self, owner, url, answers):
        self.routes[url] = list(answers)
        self.asked[url] = 0
        self.owner[url] = owner
        self.served.setdefault(owner, [])

    def peek(self, url):
        """the answer the next request for url gets"""
        ans = self.routes.get(url)
        if not ans:
            return dict(kind="status", status=404, ents=[])
        return ans[min(self.asked[url], len(ans) - 1)]

    def body(self, a):
        if a["kind"] == "ents" or a["kind"] == "status":
            xmls = [self.render(n, l) for n, l in a.get("ents", [])]
            if len(xmls) == 1 and not a.get("agg"):
                return xmls[0].encode("utf-8")
            return aggregate(xmls).encode("utf-8") if xmls else b"not found"
        if a["kind"] == "empty":
            return b""
        if a["kind"] == "garbage":
            return b"<html><body>Service temporarily unavailable<br></body>"
        return b'<?xml version="1.0"?><status xmlns="urn:example:status">ok</status>'

    def _get(self, url, **kw):
        a = self.peek(url)
        self.log.append((url, a["kind"]))
        if url in self.asked:
            self.asked[url] += 1
        status = a.get("status", 200)
        if status == 200 and a["kind"] == "ents":
            self.served[self.owner[url]].extend((n, l) for n, l in a["ents"])
        return FakeResponse(status, self.body(a))

    def _request(self, method, url, **kw):
        return self._get(url)


MDQ_BASE = "https://mdq.example.org/%s"
REMOTE_URL = "https://remote.example.org/%s/metadata.xml"


def mdq_url(cl, entity_id):
    return "%s/entities/%s" % (MDQ_BASE % cl["name"], sha1_id(entity_id))


def build_client(cl, net, issuers):
    """a new Saml2Client for the described client; its routes (re)registered at net"""
    from saml2_tophat.client import Saml2Client
    from saml2_tophat.config import SPConfig
    over = {"sp": {"want_response_signed": True}}
    if cl["only_md"] is not None:
        over["only_use_keys_in_metadata"] = cl["only_md"]
    conf = env.sp_conf(**over)
    mdconf = {}
    net.served[cl["name"]] = []
    for s in cl["sources"]:
        if s["typ"] == "mdq":
            for iname in issuers:
                net.route(cl["name"], mdq_url(cl, issuers[iname]), s["answers"].get(iname, []))
            mdconf["mdq"] = [MDQ_BASE % cl["name"] + "/"]
        elif s["typ"] == "inline":
            mdconf["inline"] = [net.render(n, l) for n, l in s["fed"]]
        else:
            url = REMOTE_URL % cl["name"]
            net.route(cl["name"], url, [dict(kind="ents", ents=s["fed"], agg=True)])
            mdconf["remote"] = [{"url": url}]
    conf["metadata"] = mdconf
    return Saml2Client(config=SPConfig().load(copy.deepcopy(conf)))
