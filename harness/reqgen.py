"""Material for C10: receiving entities from a declarative configuration spec
(real Server / Saml2Client + the Coq term of Model.Request.rcfg), requests of
every kind built with pysaml2's own element classes and signed through the
stand-in tool, the mutation operators of the property's quantifier applied to
the real XML, transport encodings, and for every produced text its
classification as Model.Request.wire (symbolic twin, below).

Nothing here asks the library what it thinks of a message: fields, validity and
signature facts of the twin come from the harness's own reading of the XML and
from what the harness itself signed."""
import base64
import calendar
import copy
import re
import time
import xml.etree.ElementTree as ET
import zlib

import env
import resp
from core import cstr, cbool, cz, copt, clist
from saml2_tophat import md, saml, samlp, sigver, class_name, ExtensionElement
from saml2_tophat import BINDING_HTTP_POST, BINDING_HTTP_REDIRECT, BINDING_SOAP, BINDING_URI, BINDING_HTTP_ARTIFACT
from saml2_tophat.config import SPConfig, IdPConfig

SAMLP = "urn:oasis:names:tc:SAML:2.0:protocol"
SAML = "urn:oasis:names:tc:SAML:2.0:assertion"
DS = "http://www.w3.org/2000/09/xmldsig#"
SIG = "{%s}Signature" % DS
NOW = env.NOW

# the documented table (the Coq side has the same, Model/Request.v; the regenerated one must equal both)
KINDS = {
    "authn": dict(num=1, coq="KAuthn", tag="AuthnRequest", owner="server", method="parse_authn_request",
                  service="single_sign_on_service", msgtype="authn_request", soap=True),
    "logout": dict(num=2, coq="KLogout", tag="LogoutRequest", owner="entity", method="parse_logout_request",
                   service="single_logout_service", msgtype="logout_request", soap=True),
    "attrq": dict(num=3, coq="KAttrQ", tag="AttributeQuery", owner="server", method="parse_attribute_query",
                  service="attribute_service", msgtype="attribute_query", soap=True),
    "authnq": dict(num=4, coq="KAuthnQ", tag="AuthnQuery", owner="server", method="parse_authn_query",
                   service="authn_query_service", msgtype="authn_query", soap=True),
    "authz": dict(num=5, coq="KAuthz", tag="AuthzDecisionQuery", owner="server", method="parse_authz_decision_query",
                  service="authz_service", msgtype="authz_decision_query", soap=False),
    "aidr": dict(num=6, coq="KAidr", tag="AssertionIDRequest", owner="server", method="parse_assertion_id_request",
                 service="assertion_id_request_service", msgtype="assertion_id_request", soap=True),
    "nim": dict(num=7, coq="KNim", tag="NameIDMappingRequest", owner="server", method="parse_name_id_mapping_request",
                service="name_id_mapping_service", msgtype="name_id_mapping_request", soap=True),
    "mni": dict(num=8, coq="KMni", tag="ManageNameIDRequest", owner="entity", method="parse_manage_name_id_request",
                service="manage_name_id_service", msgtype="manage_name_id_request", soap=True),
}
KIND_ORDER = ["authn", "logout", "attrq", "authnq", "authz", "aidr", "nim", "mni"]

# ---------------------------------------------------------------------------
# symbolic twin (Model.Xmlsec.tree) of a document.  Same idea as harness/xsw.py, kept separate:
# the element-name numbers of the request roots are reserved (Model.Request.kind_name), and the
# payload of an element does not depend on whether its ds:Signature children are there, so that the
# content digested by an ENVELOPED signature and the element without that signature have equal twins.
# ---------------------------------------------------------------------------
KEYID = {"idp": 1, "idp2": 2, "other": 3, "sp2": 4, "sp": 5, "md": 6}
_names = {"{%s}%s" % (SAMLP, KINDS[_k]["tag"]): KINDS[_k]["num"] for _k in KIND_ORDER}
_payloads = {}
DIG = {}      # DigestValue text -> twin of the digested content
SV = {}       # SignatureValue text -> (key id, canonical SignedInfo)


def _intern(table, key):
    if key not in table:
        table[key] = len(table) + 1
    return table[key]


def _c14n(elem):
    return ET.canonicalize(xml_data=ET.tostring(elem, encoding="unicode"))


def symbolic(elem, ignore=None):
    """ET element -> ('El', name, id, payload, kids) | ('Sg', refs, key, sv_ok)"""
    if elem.tag == SIG:
        si = elem.find("{%s}SignedInfo" % DS)
        sv = elem.find("{%s}SignatureValue" % DS)
        refs = []
        if si is not None:
            for ref in si.findall("{%s}Reference" % DS):
                dv = ref.find("{%s}DigestValue" % DS)
                d = DIG.get((dv.text or "").strip() if dv is not None else None)
                if d is None:
                    d = ("El", 999999, None, _intern(_payloads, ("unknown-digest", dv.text if dv is not None else None)), [])
                refs.append((ref.attrib.get("URI", ""), d))
        rec = SV.get((sv.text or "").strip() if sv is not None else None)
        if rec is None or si is None:
            return ("Sg", refs, 0, False)
        return ("Sg", refs, rec[0], rec[1] == _c14n(si))
    attrs = tuple(sorted((k, v) for k, v in elem.attrib.items() if k != "ID"))
    kids = []
    for c in elem:
        if c is ignore:
            continue
        kids.append(symbolic(c, ignore))
        if c.tag == SIG:
            # the model's signature node is a leaf: foreign content can only sit in ds:Object children of a
            # Signature; they are rendered as elements FOLLOWING the signature node (same document order, same
            # registered IDs, and never part of what an enveloped transform removes from an outer target)
            for o in c:
                if o.tag == "{%s}Object" % DS:
                    kids.append(symbolic(o, ignore))
    tails = tuple((c.tail or "") for c in elem if c.tag != SIG)
    payload = _intern(_payloads, (attrs, elem.text or "", tails))
    return ("El", _intern(_names, elem.tag), elem.attrib.get("ID"), payload, kids)


def signed_by(xml, key):
    """the harness just signed this text with `key`: learn every not yet known signature in it"""
    root = ET.fromstring(xml)
    parents = {c: p for p in root.iter() for c in p}
    ids = {}
    for el in root.iter():
        if "ID" in el.attrib:
            ids.setdefault(el.attrib["ID"], el)
    for s in reversed(list(root.iter(SIG))):
        sv = s.find("{%s}SignatureValue" % DS)
        si = s.find("{%s}SignedInfo" % DS)
        if sv is None or si is None or not (sv.text or "").strip():
            continue
        if sv.text.strip() not in SV:
            SV[sv.text.strip()] = (KEYID[key], _c14n(si))
        for ref in si.findall("{%s}Reference" % DS):
            uri = ref.attrib.get("URI", "")
            target = root if uri == "" else ids.get(uri[1:])
            dv = ref.find("{%s}DigestValue" % DS)
            if target is not None and dv is not None and (dv.text or "").strip() not in DIG:
                DIG[dv.text.strip()] = symbolic(target, ignore=s if parents.get(s) is target else None)


def coq_tree(t):
    if t[0] == "Sg":
        return "(Sg %s %d %s)" % (clist(t[1], lambda r: "(%s, %s)" % (cstr(r[0]), coq_tree(r[1]))), t[2], cbool(t[3]))
    return "(El %d %s %d %s)" % (t[1], copt(t[2], cstr), t[3], clist(t[4], coq_tree))


BINDINGS = {"redirect": (BINDING_HTTP_REDIRECT, "BRedirect"), "post": (BINDING_HTTP_POST, "BPost"),
            "soap": (BINDING_SOAP, "BSoap"), "uri": (BINDING_URI, "BUri"), "artifact": (BINDING_HTTP_ARTIFACT, "BArtifact"),
            "none": (None, "BNone"), "unknown": ("urn:example:binding:carrier-pigeon", "BUnknown")}
CTX = {"idp": "CIdp", "sp": "CSp", "aa": "CAa", "aq": "CAq", "pdp": "CPdp"}

UNKNOWN_SP = "https://unknown.example.org/sp"
EVIL = "https://evil.example.com/"

# ---------------------------------------------------------------------------
# receiving entities
# ---------------------------------------------------------------------------
I = "https://idp.example.org"
S = "https://sp.example.org"
EP_LAYOUTS = {
    # context -> service -> list of specs; a spec is (url, binding-name) | "bare url" | (url, binding-name, index)
    "full": {
        "idp": {
            "single_sign_on_service": [(I + "/sso/redirect", "redirect"), (I + "/sso/post", "post"), (I + "/sso/soap", "soap"),
                                       (I + "/sso/post2", "post")],
            "single_logout_service": [(I + "/slo/soap", "soap"), (I + "/slo/post", "post"), (I + "/slo/redirect", "redirect")],
            "name_id_mapping_service": [(I + "/nim/soap", "soap")],
            "manage_name_id_service": [(I + "/mni/soap", "soap"), (I + "/mni/post", "post"), (I + "/mni/redirect", "redirect")],
            "assertion_id_request_service": [(I + "/airs/soap", "soap"), (I + "/airs/uri", "uri")],
        },
        "aa": {"attribute_service": [(I + "/aa/soap", "soap"), (I + "/aa/post", "post")]},
        "aq": {"authn_query_service": [(I + "/aq/soap", "soap")]},
        "pdp": {"authz_service": [(I + "/pdp/soap", "soap"), (I + "/pdp/post", "post")]},
    },
    # the fallback order aa, aq, pdp: the same service under several contexts
    "fallback": {
        "idp": {"single_sign_on_service": [(I + "/sso/redirect", "redirect")]},
        "aa": {"attribute_service": [(I + "/aa/soap", "soap")], "authn_query_service": [(I + "/aa-aq/soap", "soap")]},
        "aq": {"attribute_service": [(I + "/aq-aa/soap", "soap"), (I + "/aq-aa/post", "post")],
               "authn_query_service": [(I + "/aq/soap", "soap")], "authz_service": [(I + "/aq-pdp/post", "post")]},
        "pdp": {"attribute_service": [(I + "/pdp-aa/redirect", "redirect")], "authz_service": [(I + "/pdp/soap", "soap"), (I + "/pdp/post", "post")],
                "single_logout_service": [(I + "/pdp-slo/soap", "soap")]},
    },
    # idp context has the service itself: no fallback even though aa has it too
    "own-attr": {
        "idp": {"single_sign_on_service": [(I + "/sso/redirect", "redirect")], "attribute_service": [(I + "/idp-aa/soap", "soap")]},
        "aa": {"attribute_service": [(I + "/aa/soap", "soap"), (I + "/aa/post", "post")]},
    },
    # hardly any endpoint: the destination test is skipped for most (service, binding)
    "sparse": {"idp": {"single_sign_on_service": [(I + "/sso/redirect", "redirect")]}},
    # specs that do not unpack into (url, binding): returned whatever the binding, but only when no pair matches
    "odd": {
        "idp": {
            "single_sign_on_service": [I + "/sso/bare", (I + "/sso/post", "post")],
            "single_logout_service": [I + "/slo/bare", I + "/slo/bare2"],
            "manage_name_id_service": [(I + "/mni/indexed", "soap", 1)],
        },
    },
    "sp-full": {"sp": {"single_logout_service": [(S + "/slo/soap", "soap"), (S + "/slo/post", "post"), (S + "/slo/redirect", "redirect")],
                       "manage_name_id_service": [(S + "/mni/soap", "soap"), (S + "/mni/post", "post")],
                       "assertion_consumer_service": [(S + "/acs/post", "post")]}},
    "sp-sparse": {"sp": {"assertion_consumer_service": [(S + "/acs/post", "post")]}},
    # an attribute authority of its own (Server(stype="aa")): no fallback
    "aa-only": {"aa": {"attribute_service": [(I + "/aa/soap", "soap"), (I + "/aa/post", "post")]},
                "aq": {"authn_query_service": [(I + "/aq/soap", "soap")]}},
}

# what the receiver's metadata says about the requesters: entity -> [(use, [cert names])]
MD_LAYOUTS = {
    "std": {env.SP_ID: [("signing", ["sp"])], env.SP2_ID: [("signing", ["sp2"])]},
    "two": {env.SP_ID: [("signing", ["other", "sp"])], env.SP2_ID: [("signing", ["sp2"])]},
    "enc": {env.SP_ID: [("encryption", ["sp"])], env.SP2_ID: [("signing", ["sp2"])]},
    "nokey": {env.SP_ID: [], env.SP2_ID: [("signing", ["sp2"])]},
    "unspec": {env.SP_ID: [(None, ["sp"]), ("encryption", ["other"])], env.SP2_ID: [("signing", ["sp2"])]},
    "idps": {env.IDP_ID: [("signing", ["idp"])], env.IDP2_ID: [("signing", ["idp2"])]},
    "idps-two": {env.IDP_ID: [("signing", ["other"]), ("signing", ["idp"])], env.IDP2_ID: [("signing", ["idp2"])]},
}


def cfgspec(etype="idp", eps="full", want=None, ovc=None, slack=None, only_md=None, validate=False, mdl=None, dup="fail"):
    if mdl is None:
        mdl = "idps" if etype == "sp" else "std"
    return dict(etype=etype, eps=eps, want=want, ovc=ovc, slack=slack, only_md=only_md, validate=validate, mdl=mdl, dup=dup)


def _binding_uri(name):
    return BINDINGS[name][0]


def _real_spec(s):
    if isinstance(s, str):
        return s
    if len(s) == 2:
        return (s[0], _binding_uri(s[1]))
    return (s[0], _binding_uri(s[1]), s[2])


def _entity_md(eid, layout, kind):
    """entity descriptor XML for requester `eid` with the given key descriptors"""
    if kind == "sp":
        ed = md.entity_descriptor_from_string(env.cached_md("sp", env.sp_conf(), SPConfig))
        role = ed.spsso_descriptor[0]
    else:
        ed = md.entity_descriptor_from_string(env.cached_md("idp", env.idp_conf(), IdPConfig))
        role = ed.idpsso_descriptor[0]
    ed.entity_id = eid
    kd0 = str(role.key_descriptor[0])
    kds = []
    from saml2_tophat import xmldsig as ds
    for use, certs in layout:
        kd = md.key_descriptor_from_string(kd0)
        kd.use = use
        x0 = str(kd.key_info.x509_data[0])
        xs = []
        for c in certs:
            x = ds.x509_data_from_string(x0)
            x.x509_certificate.text = env.cert_b64(c)
            xs.append(x)
        kd.key_info.x509_data = xs
        kds.append(kd)
    role.key_descriptor = kds
    return str(ed)


_entities = {}


def entity_for(cs):
    """the real receiving entity for a configuration spec (cached)"""
    key = repr(sorted(cs.items()))
    if key in _entities:
        return _entities[key]
    from saml2_tophat.server import Server
    from saml2_tophat.client import Saml2Client
    layout = EP_LAYOUTS[cs["eps"]]
    mdxml = [_entity_md(eid, lay, "idp" if cs["etype"] == "sp" else "sp") for eid, lay in MD_LAYOUTS[cs["mdl"]].items()]
    if cs["etype"] == "sp":
        conf = env.sp_conf()
        conf["service"]["sp"]["endpoints"] = {svc: [_real_spec(s) for s in specs] for svc, specs in layout.get("sp", {}).items()}
        section = conf["service"]["sp"]
    else:
        conf = env.idp_conf()
        base = conf["service"]["idp"]
        conf["service"] = {}
        for ctx, svcs in layout.items():
            sec = {"endpoints": {svc: [_real_spec(s) for s in specs] for svc, specs in svcs.items()}}
            if ctx == "idp":
                sec = dict(base, **sec)
            conf["service"][ctx] = sec
        if "idp" not in conf["service"] and cs["etype"] == "idp":
            conf["service"]["idp"] = dict(base, endpoints={})
        # the want_* options go into the section of the entity's own type (they are legal in "idp" and in "aa")
        section = conf["service"].get(cs["etype"])
        if section is None:
            section = {}
    if cs["want"] is not None:
        section["want_authn_requests_signed"] = cs["want"]
    if cs["ovc"] is not None:
        section["want_authn_requests_only_with_valid_cert"] = cs["ovc"]
    if cs["slack"] is not None:
        conf["accepted_time_diff"] = cs["slack"]
    if cs["only_md"] is not None:
        conf["only_use_keys_in_metadata"] = cs["only_md"]
    if cs["validate"]:
        conf["validate_certificate"] = True
    conf["metadata"] = {"inline": mdxml}
    if cs["etype"] == "sp":
        ent = Saml2Client(config=SPConfig().load(copy.deepcopy(conf)))
    else:
        ent = Server(config=IdPConfig().load(copy.deepcopy(conf)), stype=cs["etype"])
    _entities[key] = ent
    return ent


def configured_want(cs):
    """what the operator configured: truthiness of (want_authn_requests_signed, ..._only_with_valid_cert) in the
    section of the entity's own type; an SP has no such options (config.py SP_ARGS)"""
    if cs["etype"] == "sp":
        return False, False
    w = cs["want"]
    w = True if w == "true" else False if w == "false" else bool(w)
    o = cs["ovc"]
    o = True if o == "true" else False if o == "false" else bool(o)
    return w, o


def want_truth(cs):
    """the two options as the REPAIRED _parse_request reads them (proposed_fix/C10-2: in the entity's own section);
    the model does the reading itself (Model.Request.read_options) from the sections handed to mk_cfg_now"""
    return configured_want(cs)


def sections_coq(cs):
    if cs["etype"] == "sp":
        return "[]"
    w, o = configured_want(cs)
    return "[(%s, (%s, %s))]" % (CTX[cs["etype"]], cbool(w), cbool(o))


def own_endpoints(cs, service, bname):
    """the receiver's own addresses for (service, binding) as the SPEC implies them: (strings, has_non_string)"""
    layout = EP_LAYOUTS[cs["eps"]]

    def ep(ctx):
        specs = layout.get(ctx, {}).get(service)
        if not specs:
            return []
        spec = [s[0] for s in specs if not isinstance(s, str) and len(s) == 2 and (bname == "none" or s[1] == bname)]
        unspec = [s if isinstance(s, str) else None for s in specs if isinstance(s, str) or len(s) != 2]
        return spec or unspec
    r = ep(cs["etype"])
    if not r and cs["etype"] == "idp":
        for ctx in ("aa", "aq", "pdp"):
            r = ep(ctx)
            if r:
                break
    return r


def _spec_coq(s):
    if isinstance(s, str):
        return "(EPodd (Some %s))" % cstr(s)
    if len(s) == 2:
        return "(EP %s %s)" % (cstr(s[0]), cstr(_binding_uri(s[1])))
    return "(EPodd None)"


def md_coq(mdl):
    def ent(layout):
        return "[" + clist(layout, lambda kd: "{| kd_use := %s; kd_certs := %s |}" % (
            copt(kd[0], cstr), clist(kd[1], lambda c: "%d" % KEYID[c]))) + "]"
    return clist(list(MD_LAYOUTS[mdl].items()), lambda kv: "(%s, %s)" % (cstr(kv[0]), ent(kv[1])))


def _ident(name):
    return name.replace("-", "_")


def layout_defs():
    """Coq definitions of the endpoint layouts and metadata layouts, shared by all cases of a file"""
    out = []
    for name, layout in sorted(EP_LAYOUTS.items()):
        eps = clist(list(layout.items()), lambda kv: "(%s, %s)" % (CTX[kv[0]], clist(
            list(kv[1].items()), lambda sv: "(%s, %s)" % (cstr(sv[0]), clist(sv[1], _spec_coq)))))
        out.append("Definition EPL_%s : list (ctx * list (str * list epspec)) := %s." % (_ident(name), eps))
    for name in sorted(MD_LAYOUTS):
        out.append("Definition MDL_%s : mdstore := %s." % (_ident(name), md_coq(name)))
    out.append("Definition NOWZ : Z := %s." % cz(NOW))
    return "\n".join(out)


def cfg_coq(cs, valid_certs):
    eps = "EPL_" + _ident(cs["eps"])
    if cs["etype"] == "idp" and "idp" not in EP_LAYOUTS[cs["eps"]]:
        eps = "((CIdp, []) :: %s)" % eps
    only = True if cs["only_md"] is None else bool(cs["only_md"])
    vc = "None" if valid_certs is None else "(Some %s)" % clist(valid_certs, lambda n: "%d" % n)
    return "(mk_cfg_now %s %s %s %s NOWZ true MDL_%s %s %s %s)" % (
        CTX[cs["etype"]], eps, sections_coq(cs), cz(cs["slack"] or 0), _ident(cs["mdl"]), cbool(only), vc,
        cbool(cs["dup"] == "fail"))


# ---------------------------------------------------------------------------
# requests
# ---------------------------------------------------------------------------
def instant(t, how="Z"):
    s = time.strftime("%Y-%m-%dT%H:%M:%S", time.gmtime(t))
    return {"Z": s + "Z", "noZ": s, "frac": s + ".250Z", "offset": s + "+00:00", "garbage": "yesterday", "date": s[:10]}[how]


_INSTANT = re.compile(r"^(\d{4}-\d{2}-\d{2}T\d{2}:\d{2}:\d{2})(\.\d*)?Z?$")


def parse_instant(s):
    """the harness's own reading of an xs:dateTime as pysaml2 spells it (seconds, fraction dropped); None = not one"""
    if s is None:
        return None
    m = _INSTANT.match(s)
    if not m:
        return None
    try:
        return calendar.timegm(time.strptime(m.group(1), "%Y-%m-%dT%H:%M:%S"))
    except ValueError:
        return None


def rspec(kind="authn", issuer=env.SP_ID, rid="rq-1", version="2.0", dt=0, spelling="Z", destination=None, marker="alice",
          instant_absent=False, opts=None):
    r = dict(kind=kind, issuer=issuer, id=rid, version=version, dt=dt, spelling=spelling, destination=destination,
             marker=marker, instant_absent=instant_absent)
    if opts:
        r["opts"] = list(opts)
    return r


# ---------------------------------------------------------------------------
# kind-specific OPTIONAL attributes / children (the library writes none of them by default).  An option is a name from
# OPTS[kind]; times are offsets from NOW in seconds ("+10y" = ten years: ahead whatever clock is consulted).
# ---------------------------------------------------------------------------
YEARS10 = 10 * 366 * 86400
_PASSWORD = "urn:oasis:names:tc:SAML:2.0:ac:classes:Password"


def _subject_conf(off):
    return saml.SubjectConfirmation(method=saml.SCM_BEARER, subject_confirmation_data=saml.SubjectConfirmationData(
        not_on_or_after=instant(NOW + off), recipient=S + "/acs/post"))


def _set(attr, value):
    def f(o, r):
        setattr(o, attr, value(r) if callable(value) else value)
    return f


def _noa(off):
    return _set("not_on_or_after", instant(NOW + off))


def _cond(nb, noa):
    return _set("conditions", saml.Conditions(not_before=None if nb is None else instant(NOW + nb),
                                              not_on_or_after=None if noa is None else instant(NOW + noa)))


def _sc(off):
    def f(o, r):
        if o.subject is None:
            o.subject = saml.Subject(name_id=saml.NameID(text=r["marker"], format=saml.NAMEID_FORMAT_TRANSIENT))
        o.subject.subject_confirmation = [_subject_conf(off)]
    return f


_COMMON = {"consent": _set("consent", "urn:oasis:names:tc:SAML:2.0:consent:obtained"),
           "extensions": _set("extensions", lambda r: samlp.Extensions(extension_elements=[
               ExtensionElement("Note", namespace="urn:example:ext", attributes={"NotOnOrAfter": instant(NOW + YEARS10)}, text="n")]))}
_RAC = _set("requested_authn_context", lambda r: samlp.RequestedAuthnContext(
    authn_context_class_ref=[saml.AuthnContextClassRef(text=_PASSWORD)], comparison="exact"))
OPTS = {
    "logout": dict(_COMMON, **{
        "noa+3600": _noa(3600), "noa+2d": _noa(2 * 86400), "noa+10y": _noa(YEARS10), "noa-3600": _noa(-3600), "noa-2d": _noa(-2 * 86400),
        "noa+1": _noa(1), "noa0": _noa(0),
        "reason-user": _set("reason", "urn:oasis:names:tc:SAML:2.0:logout:user"),
        "reason-admin": _set("reason", "urn:oasis:names:tc:SAML:2.0:logout:admin"),
        "sidx": _set("session_index", lambda r: [samlp.SessionIndex(text="s-1")]),
        "sidx2": _set("session_index", lambda r: [samlp.SessionIndex(text="s-1"), samlp.SessionIndex(text="s-2")]),
    }),
    "authn": dict(_COMMON, **{
        "cond-open": _cond(-60, 3600), "cond-wide": _cond(-3 * 86400, YEARS10), "cond-past": _cond(-7200, -3600),
        "cond-future": _cond(3600, 7200), "cond-noa": _cond(None, YEARS10), "cond-nb": _cond(-YEARS10, None),
        "acs-index": lambda o, r: (setattr(o, "assertion_consumer_service_url", None), setattr(o, "assertion_consumer_service_index", "1"),
                                   setattr(o, "provider_name", "SP of " + r["marker"])),
        "subject": _set("subject", lambda r: saml.Subject(name_id=saml.NameID(text=r["marker"], format=saml.NAMEID_FORMAT_TRANSIENT))),
        "subject-sc+": _sc(YEARS10), "subject-sc-": _sc(-3600),
        "force": _set("force_authn", "true"), "force-false": _set("force_authn", "false"),
        "passive": _set("is_passive", "true"), "passive-false": _set("is_passive", "false"),
        "scoping": _set("scoping", lambda r: samlp.Scoping(
            proxy_count="1", idp_list=samlp.IDPList(idp_entry=[samlp.IDPEntry(provider_id=env.IDP2_ID, name="two")]),
            requester_id=[samlp.RequesterID(text=env.SP2_ID)])),
        "nidpol": _set("name_id_policy", lambda r: samlp.NameIDPolicy(allow_create="true", format=saml.NAMEID_FORMAT_PERSISTENT)),
        "rac": _RAC,
        "pbinding": _set("protocol_binding", BINDING_HTTP_POST),
        "provider": _set("provider_name", "SP one"),
        "attr-index": _set("attribute_consuming_service_index", "1"),
    }),
    "attrq": dict(_COMMON, **{
        "attrs": _set("attribute", lambda r: [saml.Attribute(name="urn:oid:2.5.4.42", name_format=saml.NAME_FORMAT_URI, friendly_name="givenName"),
                                              saml.Attribute(name="urn:oid:2.5.4.4", name_format=saml.NAME_FORMAT_URI)]),
        "attr-values": _set("attribute", lambda r: [saml.Attribute(name="urn:oid:2.5.4.42", name_format=saml.NAME_FORMAT_URI,
                                                                   attribute_value=[saml.AttributeValue(text=r["marker"])])]),
        "sc+": _sc(YEARS10), "sc-": _sc(-3600),
    }),
    "authnq": dict(_COMMON, **{"sidx-attr": _set("session_index", "s-1"), "rac": _RAC, "sc+": _sc(YEARS10), "sc-": _sc(-3600)}),
    "authz": dict(_COMMON, **{
        "evidence": _set("evidence", lambda r: saml.Evidence(assertion_id_ref=[saml.AssertionIDRef(text="a-1")])),
        "action2": _set("action", lambda r: [saml.Action(text="read", namespace="urn:x:actions"), saml.Action(text="write", namespace="urn:x:actions")]),
        "sc+": _sc(YEARS10),
    }),
    "aidr": dict(_COMMON, **{
        "ref2": _set("assertion_id_ref", lambda r: [saml.AssertionIDRef(text="a-" + r["marker"]), saml.AssertionIDRef(text="a-2")]),
    }),
    "nim": dict(_COMMON, **{
        "nidpol-allow": _set("name_id_policy", lambda r: samlp.NameIDPolicy(format=saml.NAMEID_FORMAT_PERSISTENT, allow_create="true",
                                                                           sp_name_qualifier=env.SP2_ID)),
    }),
    "mni": dict(_COMMON, **{
        "newid": lambda o, r: (setattr(o, "terminate", None), setattr(o, "new_id", samlp.NewID(text="new-" + r["marker"]))),
    }),
}
# the option sets walked for each kind: every option alone, and the combinations that carry several at once
OPT_SETS = {
    "logout": [[o] for o in sorted(OPTS["logout"])] + [["noa+10y", "reason-user", "sidx"], ["noa-2d", "reason-admin", "sidx2", "consent"]],
    "authn": [[o] for o in sorted(OPTS["authn"])] + [["cond-wide", "subject-sc+", "force", "passive", "scoping", "nidpol", "rac"],
                                                    ["cond-past", "force-false", "passive-false", "provider", "pbinding"]],
    "attrq": [[o] for o in sorted(OPTS["attrq"])] + [["attrs", "sc+", "consent"]],
    "authnq": [[o] for o in sorted(OPTS["authnq"])] + [["sidx-attr", "rac", "sc+"]],
    "authz": [[o] for o in sorted(OPTS["authz"])] + [["evidence", "action2", "sc+"]],
    "aidr": [[o] for o in sorted(OPTS["aidr"])] + [["ref2", "consent"]],
    "nim": [[o] for o in sorted(OPTS["nim"])] + [["nidpol-allow", "consent"]],
    "mni": [[o] for o in sorted(OPTS["mni"])] + [["newid", "consent"]],
}


def build_request(r):
    """request spec -> pysaml2 element object"""
    nid = saml.NameID(text=r["marker"], format=saml.NAMEID_FORMAT_TRANSIENT)
    base = dict(id=r["id"], version=r["version"],
                issue_instant=None if r["instant_absent"] else instant(NOW + r["dt"], r["spelling"]),
                destination=r["destination"],
                issuer=saml.Issuer(text=r["issuer"]) if r["issuer"] is not None else None)
    if r.get("ext_ids"):
        # samlp:Extensions (part of the signed content) whose children carry ID attributes: elements of ANOTHER name
        # than the request carrying an ID - possibly the request's own (the pre-check counts carriers of any name)
        def note(ids):
            return ExtensionElement("Note", namespace="urn:example:ext", attributes={"ID": ids[0]}, text=None if ids[1:] else "n",
                                    children=[note(ids[1:])] if ids[1:] else None)
        base["extensions"] = samlp.Extensions(extension_elements=[note(list(i)) if isinstance(i, (list, tuple)) else note([i]) for i in r["ext_ids"]])
    obj = _build_kind(r, base, nid)
    for o in r.get("opts") or []:
        OPTS[r["kind"]][o](obj, r)
    if r.get("site"):
        # a required attribute somewhere in the request present-but-empty / absent / good (harness/c10_empty.py)
        import c10_empty
        c10_empty.apply(obj, r["kind"], r["site"][0], r["site"][1])
    return obj


def _build_kind(r, base, nid):
    k = r["kind"]
    if k == "authn":
        return samlp.AuthnRequest(assertion_consumer_service_url=S + "/acs/" + r["marker"], **base)
    if k == "logout":
        return samlp.LogoutRequest(name_id=nid, **base)
    if k == "attrq":
        return samlp.AttributeQuery(subject=saml.Subject(name_id=nid), **base)
    if k == "authnq":
        return samlp.AuthnQuery(subject=saml.Subject(name_id=nid), **base)
    if k == "authz":
        return samlp.AuthzDecisionQuery(subject=saml.Subject(name_id=nid), resource="urn:x:resource",
                                        action=[saml.Action(text="read", namespace="urn:x:actions")], **base)
    if k == "aidr":
        return samlp.AssertionIDRequest(assertion_id_ref=[saml.AssertionIDRef(text="a-" + r["marker"])], **base)
    if k == "nim":
        return samlp.NameIDMappingRequest(name_id=nid, name_id_policy=samlp.NameIDPolicy(format=saml.NAMEID_FORMAT_PERSISTENT), **base)
    if k == "mni":
        return samlp.ManageNameIDRequest(name_id=nid, terminate=samlp.Terminate(), **base)
    raise KeyError(k)


_xml_cache = {}


def request_xml(r, sign=None, embed=True):
    """XML text of the request; sign = harness key name (through the stand-in) or None"""
    key = (repr(sorted(r.items())), sign, embed)
    if key not in _xml_cache:
        obj = build_request(r)
        if sign:
            obj.signature = sigver.pre_signature_part(obj.id, env.cert_b64(sign) if embed else None)
            text = resp.signer(sign).sign_statement(str(obj), node_name=class_name(obj), node_id=obj.id)
            signed_by(text, sign)
        else:
            text = str(obj)
        _xml_cache[key] = text
    return _xml_cache[key]


# ---------------------------------------------------------------------------
# mutations of a (signed) request: name -> (xml, meta)
# meta: valid (still schema-valid as far as the harness changed it), modified (the signed content or the
# signature arrangement was changed), wrap (wrapping variant or None)
# ---------------------------------------------------------------------------
def _ser(root):
    return ET.tostring(root, encoding="unicode")


def _first_text_node(root, marker):
    for el in root.iter():
        if el.text and marker in el.text and el.tag != SIG:
            return el
    return None


def mutate(xml, name, r, donor=None, forged=None):
    """apply mutation `name` to the request text; returns (xml, meta) or None when it does not apply"""
    root = ET.fromstring(xml)
    sig = root.find(SIG)
    meta = dict(valid=True, modified=True, wrap=None)
    if name == "none":
        meta["modified"] = False
        return xml, meta
    if name == "edit-content":
        el = _first_text_node(root, r["marker"])
        if el is not None:
            el.text = el.text.replace(r["marker"], "mallory")
        else:
            for a, v in list(root.attrib.items()):
                if r["marker"] in v:
                    root.set(a, v.replace(r["marker"], "mallory"))
        if _ser(root) == _ser(ET.fromstring(xml)):
            return None                                   # nothing to edit in this request
        return _ser(root), meta
    if name.startswith("edit-destination:"):
        root.set("Destination", name.split(":", 1)[1])
        return _ser(root), meta
    if name == "drop-destination":
        if "Destination" not in root.attrib:
            return None
        del root.attrib["Destination"]
        return _ser(root), meta
    if name == "edit-issue-instant":
        root.set("IssueInstant", instant(NOW + r["dt"] + 1))
        return _ser(root), meta
    if name == "edit-id":
        root.set("ID", r["id"] + "x")
        return _ser(root), meta
    if name == "edit-version":
        root.set("Version", "2.00")
        return _ser(root), meta
    if name == "edit-issuer":
        root.find("{%s}Issuer" % SAML).text = env.SP2_ID if r["issuer"] != env.SP2_ID else env.SP_ID
        return _ser(root), meta
    if name == "edit-issuer-whitespace":
        root.find("{%s}Issuer" % SAML).text = " " + r["issuer"] + "\n"
        return _ser(root), meta
    if name == "add-attribute":
        c = "urn:oasis:names:tc:SAML:2.0:consent:obtained"
        root.set("Consent", c if root.get("Consent") != c else "urn:oasis:names:tc:SAML:2.0:consent:prior")
        return _ser(root), meta
    if name == "add-child":
        ext = ET.Element("{%s}Extensions" % SAMLP)
        ET.SubElement(ext, "{urn:example:ext}Note").text = "added"
        root.insert(1, ext)
        return _ser(root), meta
    if sig is None:
        return None
    if name == "strip-signature":
        root.remove(sig)
        return _ser(root), meta
    if name == "corrupt-sigvalue":
        sv = sig.find("{%s}SignatureValue" % DS)
        sv.text = ("AAAA" if not sv.text.startswith("AAAA") else "BBBB") + sv.text[4:]
        return _ser(root), meta
    if name == "corrupt-digest":
        dv = sig.find("{%s}SignedInfo/{%s}Reference/{%s}DigestValue" % (DS, DS, DS))
        dv.text = ("AAAA" if not dv.text.startswith("AAAA") else "BBBB") + dv.text[4:]
        return _ser(root), meta
    if name == "retarget-reference":
        sig.find("{%s}SignedInfo/{%s}Reference" % (DS, DS)).set("URI", "")
        return _ser(root), meta
    if name == "swap-keyinfo":
        c = sig.find("{%s}KeyInfo/{%s}X509Data/{%s}X509Certificate" % (DS, DS, DS))
        if c is None:
            return None
        c.text = env.cert_b64("other")
        meta["modified"] = False          # KeyInfo is not covered by the signature and is not request content
        return _ser(root), meta
    if name == "transplant-signature":
        # signature of another genuine request of the same sender (same ID, other content) put on this one
        if donor is None:
            return None
        dsig = ET.fromstring(donor).find(SIG)
        idx = list(root).index(sig)
        root.remove(sig)
        root.insert(idx, dsig)
        return _ser(root), meta
    if name == "second-signature-child":
        root.append(copy.deepcopy(sig))
        meta["modified"] = False          # content and first signature untouched; only an extra copy of the signature
        meta["arrangement"] = True
        return _ser(root), meta
    if name.startswith("wrap:"):
        # forged request (other content) with the genuine one parked inside; `forged` is the unsigned forged text
        _, park, sigkind, idkind = name.split(":")
        f = ET.fromstring(forged)
        orig = ET.fromstring(xml)
        osig = orig.find(SIG)
        scopy = copy.deepcopy(osig)
        if idkind == "same-id":
            f.set("ID", orig.get("ID"))
        elif idkind == "no-id":
            del f.attrib["ID"]
            meta["valid"] = False
        if sigkind == "moved":            # the signature leaves the original and sits on the forged root
            orig.remove(osig)
            own = scopy
        elif sigkind == "copied":         # the original keeps it, the forged root carries a copy
            own = scopy
        elif sigkind == "garbage":        # the original keeps it, the forged root carries an unrelated invalid one
            own = scopy
            own.find("{%s}SignatureValue" % DS).text = "Z2FyYmFnZQ=="
            own.find("{%s}SignedInfo/{%s}Reference" % (DS, DS)).set("URI", "#" + (f.get("ID") or "nothing"))
        else:                             # "none": the forged root has no signature child of its own
            own = None
        if park == "ext-after":           # Issuer, Signature, Extensions(original): schema order
            holder = ET.Element("{%s}Extensions" % SAMLP)
            holder.append(orig)
            if own is not None:
                f.insert(1, own)
                f.insert(2, holder)
            else:
                f.insert(1, holder)
        elif park == "ext-before":        # Extensions(original) precedes the root's own signature child
            holder = ET.Element("{%s}Extensions" % SAMLP)
            holder.append(orig)
            f.insert(1, holder)
            if own is not None:
                f.insert(2, own)
        elif park == "object":            # original inside ds:Object of the root's signature child
            if own is None:
                return None
            obj = ET.SubElement(own, "{%s}Object" % DS)
            obj.append(orig)
            f.insert(1, own)
        else:
            raise KeyError(park)
        meta["wrap"] = "%s:%s" % (park, sigkind)
        return _ser(f), meta
    raise KeyError(name)


WRAPS = ["wrap:%s:%s:%s" % (p, s, i) for p in ("ext-after", "ext-before", "object")
         for s in ("moved", "copied", "garbage", "none") for i in ("new-id", "same-id", "no-id")
         if not (p == "object" and s == "none")]
SIGNED_MUTATIONS = ["none", "edit-content", "edit-issue-instant", "edit-id", "edit-version", "edit-issuer", "edit-issuer-whitespace",
                    "add-attribute", "add-child", "strip-signature", "corrupt-sigvalue", "corrupt-digest", "retarget-reference",
                    "swap-keyinfo", "transplant-signature", "second-signature-child", "drop-destination"]


# ---------------------------------------------------------------------------
# a text as the receiver will see it -> Model.Request.wire
# ---------------------------------------------------------------------------
def doc_fields(root, valid):
    """the harness's own reading of the root element: (version, destination, issue instant seconds, issuer stripped, embedded certs)"""
    iss = None
    for ch in root:
        if ch.tag == "{%s}Issuer" % SAML:
            iss = ch.text.strip() if ch.text is not None else None
    emb = []
    sig = None
    for ch in root:
        if ch.tag == SIG:
            sig = ch
    if sig is not None:
        ki = None
        for ch in sig:
            if ch.tag == "{%s}KeyInfo" % DS:
                ki = ch
        if ki is not None:
            for xd in ki:
                if xd.tag != "{%s}X509Data" % DS:
                    continue
                cert = None
                for c in xd:
                    if c.tag == "{%s}X509Certificate" % DS:
                        cert = c
                if cert is not None and cert.text:
                    emb.append(_cert_id("".join(cert.text.split())))
    return dict(version=root.get("Version"), destination=root.get("Destination"),
                instant=parse_instant(root.get("IssueInstant")), issuer=iss, embedded=emb, valid=valid,
                opts=optional_content(root))


def _local(tag):
    return tag.split("}", 1)[-1]


def optional_content(root):
    """the harness's own reading of the kind-specific content of the root: [(path, seconds | None)] - every attribute of
    the root beyond ID / Version / IssueInstant / Destination, every child beyond Issuer / Signature / Extensions, and
    every attribute below such a child that reads as an xs:dateTime"""
    out = []
    for a, v in sorted(root.attrib.items()):
        if a not in ("ID", "Version", "IssueInstant", "Destination"):
            out.append((_local(a), parse_instant(v)))
    for ch in root:
        if ch.tag in ("{%s}Issuer" % SAML, SIG, "{%s}Extensions" % SAMLP):
            continue

        def walk(el, path):
            for a, v in sorted(el.attrib.items()):
                t = parse_instant(v)
                if t is not None:
                    out.append((path + "/@" + _local(a), t))
            for c in el:
                walk(c, path + "/" + _local(c.tag))
        out.append((_local(ch.tag), None))
        walk(ch, _local(ch.tag))
    return out


_certids = None


def _cert_id(b64):
    global _certids
    if _certids is None:
        _certids = {"".join(env.cert_b64(k).split()): n for k, n in KEYID.items()}
    return _certids.get(b64, 99)


def doc_coq(xml, valid):
    """XML text of a well-formed document -> (Coq term of reqdoc, python summary)"""
    root = ET.fromstring(xml)
    f = doc_fields(root, valid)
    tree = symbolic(root)
    # the schema requires ID, Version and a well-formed IssueInstant on every request
    f["valid"] = valid = bool(valid and f["instant"] is not None and root.get("ID") and root.get("Version"))
    term = "(Build_reqdoc %s %s %s %s %s %s %s %s)" % (
        coq_tree(tree), copt(f["version"], cstr), copt(f["destination"], cstr), copt(f["instant"], cz),
        cbool(valid), copt(f["issuer"], cstr), clist(f["embedded"], lambda n: "%d" % n),
        clist(f["opts"], lambda o: "(%s, %s)" % (cstr(o[0]), copt(o[1], cz))))
    f["tree"] = tree
    f["root_tag"] = root.tag
    f["signed"] = any(ch.tag == SIG for ch in root)
    return term, f


SOAP_ENV = '<ns0:Envelope xmlns:ns0="http://schemas.xmlsoap.org/soap/envelope/"><ns0:Body>%s</ns0:Body></ns0:Envelope>'
SOAP_HDR_ENV = ('<ns0:Envelope xmlns:ns0="http://schemas.xmlsoap.org/soap/envelope/"><ns0:Header><x xmlns="urn:h"/></ns0:Header>'
                '<ns0:Body>%s</ns0:Body></ns0:Envelope>')


def encode(xml, bname, soap_env=SOAP_ENV):
    """what the sender puts on the wire for this binding"""
    if bname in ("post", "artifact"):
        return base64.b64encode(xml.encode("utf-8")).decode("ascii")
    if bname == "redirect":
        return base64.b64encode(zlib.compress(xml.encode("utf-8"))[2:-4]).decode("ascii")
    if bname == "soap":
        return soap_env % xml
    return xml
