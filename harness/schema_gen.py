"""Shared by C12 / C13: generated element objects over the reflected tables,
and the renderings  object -> Coq `inst` term,  object -> `val`,
ElementTree element -> Coq `xtree` term / `val`.

Objects are REAL pysaml2 objects; the Coq term is read back from the object
(getattr per table row), so defaults set by __init__ are mirrored."""
import copy
from xml.etree import ElementTree as ET

import translate_schema
from core import cstr, Exn

FOREIGN_NS = "urn:pv:foreign"
TEXTS = ["x", "a b", "<&>\"'", "éß", "日本", "\U0001F600", " lead", "trail ", "a\nb", "]]>", "&amp;",
         "true", "42", "urn:x:y", "2020-01-01T00:00:00Z", "a\tb", "'", '"q"', "x" * 40]


# legal but non-canonical lexical forms of the simple types attributes have (boolean, integers, dateTime, duration, base64, anyURI):
# an attribute is TEXT to the object layer; whatever was written must be what is read back
LEXICAL = ["1", "0", "false", "TRUE", "+1", "01", "-0", "1.0", "1e0", " 1 ", "2020-01-01T00:00:00.000Z", "2020-01-01T00:00:00+00:00",
           "2020-1-1T0:0:0Z", "PT24H", "P1D", "P0Y", "AQ==", "AQ==\n", "aq==", "HTTP://Example.ORG/a/../b", "urn:X:y", "%41"]


class Gen(object):
    def __init__(self, rng, T=None, skip_members=(), skip_classes=()):
        self.T = T or translate_schema.tables()
        self.rng = rng
        self.skip_members = set(skip_members)   # (class id, member id) not generated below the root
        self.skip_classes = set(skip_classes)   # class ids not generated below the root
        self.av = {r["id"] for r in self.T.rows if r["over"]}

    # ---- names
    def name(self, i):
        return self.T.names[i]

    def text(self):
        return self.rng.choice(TEXTS)

    def attr_text(self):
        """value of an attribute: now and then the empty string (a declared attribute that is '' is still an
        attribute: it must be written and read back as '')"""
        x = self.rng.random()
        if x < 0.08:
            return ""
        if x < 0.30:
            return self.rng.choice(LEXICAL)      # spellings a typed reader might be tempted to canonicalise
        return self.rng.choice(TEXTS)

    # ---- foreign content
    def foreign_elem(self, depth=1, known_tag=None):
        from saml2_tophat import ExtensionElement
        r = self.rng
        if known_tag:
            ns, tag = known_tag[1:].split("}")
        else:
            ns, tag = r.choice([(FOREIGN_NS, "Ext%d" % r.randint(0, 3)), (None, "bare%d" % r.randint(0, 2)),
                                (FOREIGN_NS + ":b", "Other")])
        e = ExtensionElement(tag, ns)
        if r.random() < 0.6:
            e.attributes["fa%d" % r.randint(0, 2)] = self.attr_text()
        if r.random() < 0.3:
            e.attributes["{%s}q" % FOREIGN_NS] = self.text()
        if r.random() < 0.6:
            e.text = self.text()
        if depth > 0 and r.random() < 0.5:
            for _ in range(r.randint(1, 2)):
                e.children.append(self.foreign_elem(depth - 1))
        return e

    def foreign_attr(self):
        r = self.rng
        return r.choice(["{%s}fattr%d" % (FOREIGN_NS, r.randint(0, 2)), "plain%d" % r.randint(0, 2)]), self.attr_text()

    # ---- objects
    def av_obj(self, cid, kind=None):
        cls = self.T.classes[cid]
        r = self.rng
        kind = kind or r.choice(["str", "str", "nil", "int", "bool", "b64", "xsd", "ext"])
        if kind == "str":
            return cls(text=self.text())
        if kind == "nil":
            return cls()
        if kind == "ext":
            o = cls(text=self.text())
            o.extension_elements.append(self.foreign_elem(1))
            return o
        o = cls()
        if kind == "int":
            o.set_type("xs:" + r.choice(["integer", "int", "long", "short"]))
            o.set_text(str(r.choice([0, 7, -3, 123456789012345678901])))
        elif kind == "bool":
            o.set_type("xs:boolean")
            o.set_text(r.choice(["true", "false"]))
        elif kind == "b64":
            o.set_type("xs:base64Binary")
            o.set_text("aGVsbG8=")
        elif kind == "xsd":
            o.set_type("xsd:string")
            o.set_text(self.text())
        return o

    def obj(self, cid, depth=3, full=False, budget=None, root=True, foreign=0.35):
        """a generated instance of class `cid`"""
        T, r = self.T, self.rng
        row, cls = T.rows[cid], T.classes[cid]
        if budget is None:
            budget = [45]
        budget[0] -= 1
        if cid in self.av:
            return self.av_obj(cid)
        o = cls()
        for (_x, m, _t, _req) in row["attrs"]:
            if full or r.random() < 0.5:
                setattr(o, self.name(m), self.attr_text())
        if r.random() < (0.7 if full else 0.4):
            o.text = self.text() if r.random() < 0.95 else ""
        for (_k, m, ccid, islist) in row["children"]:
            if ccid is None:
                continue
            if ((cid, m) in self.skip_members and not root) or ccid in self.skip_classes:
                continue
            if depth <= 0 or (budget[0] <= 0 and not (full and root)):
                continue
            if full and root:
                n = r.randint(1, 3) if islist else 1
            else:
                n = r.choice([0, 0, 0, 1, 1, 2, 3]) if islist else r.choice([0, 0, 1])
            if n == 0:
                continue
            kids = [self.obj(ccid, depth - 1, False, budget, False, foreign) for _ in range(n)]
            name = self.name(m)
            if m in row["missing"]:
                continue   # the member does not exist (F13): leave the object as __init__ made it
            setattr(o, name, kids if islist else kids[0])
        if r.random() < (1.0 if (full and root) else foreign):
            for _ in range(r.randint(1, 2)):
                kt = None
                if r.random() < 0.25:
                    cand = T.rows[r.randrange(len(T.rows))]
                    q = self.name(cand["qtag"])
                    if cand["tag"] and cand["ns"] and T.intern[q] not in [c[0] for c in row["children"]]:
                        kt = q
                o.extension_elements.append(self.foreign_elem(1, kt))
        if r.random() < (1.0 if (full and root) else foreign):
            for _ in range(r.randint(1, 2)):
                k, v = self.foreign_attr()
                o.extension_attributes[k] = v
        return o


# ------------------------------------------------------------------ renderings
def _pairs_coq(T, items):
    return "[" + ";".join("(%d,%s)" % (T.n(k), cstr(v)) for k, v in items) + "]"


def _text_coq(t):
    return "None" if t is None else "(Some %s)" % cstr(t)


def ext_to_coq(T, e):
    tag = "{%s}%s" % (e.namespace, e.tag) if e.namespace is not None else e.tag
    return "(X %d %s %s [%s])" % (T.n(tag), _pairs_coq(T, e.attributes.items()), _text_coq(e.text),
                                  ";".join(ext_to_coq(T, c) for c in e.children))


def ext_to_val(T, e):
    tag = "{%s}%s" % (e.namespace, e.tag) if e.namespace is not None else e.tag
    return [T.n(tag), [[T.n(k), v] for k, v in e.attributes.items()], e.text, [ext_to_val(T, c) for c in e.children]]


def _kids(T, o, row):
    """(member id, [child objects]) per child row, the way python sees them"""
    out = []
    for (_k, m, _c, _l) in row["children"]:
        v = getattr(o, T.names[m], None)
        if v is None:
            v = []
        elif not isinstance(v, list):
            v = [v]
        out.append((m, v))
    return out


def obj_to_coq(T, o):
    if o is None:
        return "INone"
    cid = T.cid[type(o)]
    row = T.rows[cid]
    attrs = []
    for (_x, m, _t, _r) in row["attrs"]:
        v = getattr(o, T.names[m], None)
        if v is not None:
            attrs.append("(%d,%s)" % (m, cstr(v)))
    kids = []
    for m, l in _kids(T, o, row):
        for k in l:
            kids.append("(%d,%s)" % (m, obj_to_coq(T, k)))
    return "(I %d [%s] %s [%s] %s [%s])" % (
        cid, ";".join(attrs), _text_coq(o.text), ";".join(kids), _pairs_coq(T, o.extension_attributes.items()),
        ";".join(ext_to_coq(T, e) for e in o.extension_elements))


def obj_to_val(T, o):
    """mirror of Model.Schema.show_inst"""
    if o is None:
        return None
    cid = T.cid[type(o)]
    row = T.rows[cid]
    return [cid,
            [getattr(o, T.names[m], None) for (_x, m, _t, _r) in row["attrs"]],
            o.text,
            [[obj_to_val(T, k) for k in l] for _m, l in _kids(T, o, row)],
            [[T.n(k), v] for k, v in o.extension_attributes.items()],
            [ext_to_val(T, e) for e in o.extension_elements]]


def et_to_coq(T, e):
    return "(X %d %s %s [%s])" % (T.n(e.tag), _pairs_coq(T, e.attrib.items()), _text_coq(e.text),
                                  ";".join(et_to_coq(T, c) for c in e))


def et_to_val(T, e):
    """mirror of Model.Schema.show_xtree"""
    return [T.n(e.tag), [[T.n(k), v] for k, v in e.attrib.items()], e.text, [et_to_val(T, c) for c in e]]


def count_nodes(o):
    n = 1
    for v in vars(o).values():
        if isinstance(v, list):
            n += sum(count_nodes(x) for x in v if hasattr(x, "c_tag"))
        elif hasattr(v, "c_tag"):
            n += count_nodes(v)
    return n


def describe(T, o, limit=400):
    try:
        s = o.to_string().decode("utf8")
    except Exception as e:  # noqa
        s = "<%s: cannot serialise: %s>" % (T.qname[T.cid[type(o)]], e)
    return s[:limit]
