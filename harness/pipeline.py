"""Spec -> (real XML, Coq term of Model.Response.response) and SP configuration
-> (real Saml2Client, Coq term of Model.Response.cfg).  Used by C02, C04, C05,
C03, C17.  A spec is the dict of harness/resp.py extended with:
  times as epoch ints (or None) plus spec['spelling'] in SPELLINGS,
  'sig' on response / assertion: None | 'valid' | 'corrupt' | 'wrongkey'
  'encrypted': list of assertion specs that are sent encrypted (+ 'enc_for': key name)
"""
import base64
import copy
import re

import env
import resp
from core import Exn, cstr, cbool, cz, copt, clist
from env import NOW, ts, IDP_ID, SP_ID, SP_ACS_POST, SP_ACS_REDIRECT
from saml2_tophat import saml, samlp, sigver, class_name
from saml2_tophat import BINDING_HTTP_POST, BINDING_HTTP_REDIRECT, BINDING_SOAP
from saml2_tophat.saml import SCM_BEARER, SCM_HOLDER_OF_KEY, SCM_SENDER_VOUCHES

SPELLINGS = {
    "Z": lambda t: ts(t),
    "noZ": lambda t: ts(t)[:-1],
    "frac": lambda t: ts(t)[:-1] + ".734Z",
    "fracNoZ": lambda t: ts(t)[:-1] + ".5",
}
BAD_SPELLINGS = {
    "offset": lambda t: ts(t)[:-1] + "+00:00",
    "garbage": lambda t: "yesterday",
}


def spell(t, how="Z"):
    if t is None:
        return None
    return (SPELLINGS.get(how) or BAD_SPELLINGS[how])(t)


def A(**over):
    a = {
        "id": "a-1", "issuer": IDP_ID, "issue_instant": NOW, "name_id": "subject-1",
        "confirmations": [{"method": SCM_BEARER, "irt": "req-1", "recipient": SP_ACS_POST, "nooa": NOW + 300, "nb": None,
                           "address": None, "data": True}],
        "conditions": {"nb": NOW - 300, "nooa": NOW + 300, "audiences": [[SP_ID]], "empty": False},
        "authn": [{"session_nooa": None}],
        "attributes": {"urn:oid:2.5.4.42": ["Anna"]},
        "sig": None, "has_subject": True,
    }
    a.update(over)
    return a


def R(**over):
    r = {
        "id": "r-1", "irt": "req-1", "version": "2.0", "issue_instant": NOW, "destination": SP_ACS_POST, "issuer": IDP_ID,
        "status": {"code": samlp.STATUS_SUCCESS, "sub": None, "message": None},
        "assertions": [A()], "encrypted": [], "sig": None, "spelling": "Z", "binding": "post",
    }
    r.update(over)
    return r


# ---------------------------------------------------------------- real XML
def _assertion_obj(a, sp):
    confs = []
    for c in a["confirmations"]:
        data = None
        if c.get("data", True):
            data = saml.SubjectConfirmationData(in_response_to=c.get("irt"), recipient=c.get("recipient"),
                                                not_on_or_after=spell(c.get("nooa"), sp), not_before=spell(c.get("nb"), sp),
                                                address=c.get("address"))
            if c["method"] == SCM_HOLDER_OF_KEY and c.get("keyinfo"):
                from saml2_tophat import xmldsig as ds
                data.add_extension_element(ds.KeyInfo(key_name=ds.KeyName(text="k")))
        confs.append(saml.SubjectConfirmation(method=c["method"], subject_confirmation_data=data))
    subject = None
    if a.get("has_subject", True):
        subject = saml.Subject(name_id=saml.NameID(text=a["name_id"], format=saml.NAMEID_FORMAT_TRANSIENT)
                               if a.get("name_id") is not None else None, subject_confirmation=confs)
    cond = None
    if a.get("conditions") is not None:
        k = a["conditions"]
        cond = saml.Conditions(
            not_before=spell(k.get("nb"), sp), not_on_or_after=spell(k.get("nooa"), sp),
            audience_restriction=[saml.AudienceRestriction(audience=[saml.Audience(text=x) for x in auds])
                                  for auds in k.get("audiences", [])])
        if k.get("unknown_condition"):
            cond.condition = [saml.Condition()]
    authn = []
    for s in a.get("authn", []):
        authn.append(saml.AuthnStatement(
            authn_instant=ts(NOW), session_index="s-1", session_not_on_or_after=spell(s.get("session_nooa"), sp),
            authn_context=saml.AuthnContext(authn_context_class_ref=saml.AuthnContextClassRef(text=resp.PASSWORD))))
    attrs = [saml.Attribute(name=n, name_format=resp.NAME_FORMAT_URI, attribute_value=[saml.AttributeValue(text=v) for v in vals])
             for n, vals in (a.get("attributes") or {}).items()]
    return saml.Assertion(id=a["id"], version="2.0", issue_instant=ts(a["issue_instant"]),
                          issuer=saml.Issuer(text=a["issuer"]) if a.get("issuer") is not None else None,
                          subject=subject, conditions=cond, authn_statement=authn,
                          attribute_statement=[saml.AttributeStatement(attribute=attrs)] if attrs else [])


def _sign(text, node_name, node_id, how):
    key = "other" if how == "wrongkey" else "idp"
    out = resp.signer(key).sign_statement(text, node_name=node_name, node_id=node_id)
    if how == "corrupt":
        # flip one character of THIS element's DigestValue reference target: change signed content after signing
        out = _corrupt(out, node_id)
    return out


def _corrupt(xml, node_id):
    """tamper with the signature belonging to element `node_id` (its SignatureValue)"""
    marker = 'URI="#%s"' % node_id
    i = xml.index(marker)
    j = xml.index("SignatureValue>", i) + len("SignatureValue>")
    ch = xml[j]
    return xml[:j] + ("A" if ch != "A" else "B") + xml[j + 1:]


def build_xml(spec):
    env.tool_inprocess(True)
    sp = spec.get("spelling", "Z")
    plain = [(a, _assertion_obj(a, sp)) for a in spec["assertions"]]
    enc = [(a, _assertion_obj(a, sp)) for a in spec.get("encrypted", [])]
    r = samlp.Response(id=spec["id"], in_response_to=spec.get("irt"), version=spec["version"],
                       issue_instant=spell(spec["issue_instant"], sp), destination=spec.get("destination"),
                       issuer=saml.Issuer(text=spec["issuer"]) if spec.get("issuer") is not None else None,
                       status=resp._status(spec.get("status")), assertion=[o for _, o in plain])
    to_sign = []
    for a, o in plain + enc:
        if a.get("sig"):
            o.signature = sigver.pre_signature_part(o.id, env.cert_b64("idp"), sign_alg=spec.get("sign_alg"), digest_alg=spec.get("digest_alg"))
            to_sign.append((class_name(o), o.id, a["sig"]))
    if enc:
        r.encrypted_assertion = []
        for a, o in enc:
            ea = saml.EncryptedAssertion()
            ea.add_extension_element(o)
            r.encrypted_assertion.append(ea)
    if spec.get("sig"):
        r.signature = sigver.pre_signature_part(r.id, env.cert_b64("idp"), sign_alg=spec.get("sign_alg"), digest_alg=spec.get("digest_alg"))
    text = str(r)
    # inside-out: assertions first (also the ones that will be encrypted), then encryption, then the response
    for node_name, node_id, how in to_sign:
        text = _sign(text, node_name, node_id, how)
    for i, (a, o) in enumerate(enc):
        certfile = env.cert(a.get("enc_for", "sp"))
        xpath = '/*[local-name()="Response"]/*[local-name()="EncryptedAssertion"]/*[local-name()="Assertion"]'
        text = resp.signer("idp").crypto.encrypt_assertion(text, certfile, sigver.pre_encryption_part(), node_xpath=xpath)
    if spec.get("sig"):
        text = _sign(text, class_name(r), r.id, spec["sig"])
    return text


# ---------------------------------------------------------------- Coq terms
def _sig_coq(how):
    if not how:
        return "None"
    if how == "valid":
        return "(Some (Ok tt))"
    return '(Some (Err (s2l "SignatureError")))'


def _conf_coq(c):
    m = {SCM_BEARER: "Bearer", SCM_SENDER_VOUCHES: "SenderVouches"}.get(c["method"])
    if c["method"] == SCM_HOLDER_OF_KEY:
        m = "(HolderOfKey %s)" % cbool(bool(c.get("keyinfo")))
    if m is None:
        m = "OtherMethod"
    if not c.get("data", True):
        d = "None"
    else:
        addr = c.get("address")
        d = ("(Some {| d_address := %s; d_address_valid := %s; d_nooa := %s; d_nb := %s; d_irt := %s; d_recipient := %s |})"
             % (copt(addr, cstr), cbool(_valid_addr(addr)), copt(c.get("nooa"), cz), copt(c.get("nb"), cz),
                copt(c.get("irt"), cstr), copt(c.get("recipient"), cstr)))
    return "{| c_method := %s; c_data := %s |}" % (m, d)


def _valid_addr(a):
    if a is None:
        return True
    import ipaddress
    try:
        ipaddress.ip_address(a)
        return True
    except ValueError:
        return False


def _cond_coq(k):
    if k is None:
        return "None"
    empty = k.get("nb") is None and k.get("nooa") is None and not k.get("audiences") and not k.get("unknown_condition")
    return ("(Some {| k_empty := %s; k_nb := %s; k_nooa := %s; k_audiences := %s; k_unknown_condition := %s |})"
            % (cbool(empty), copt(k.get("nb"), cz), copt(k.get("nooa"), cz),
               clist(k.get("audiences", []), lambda auds: clist([x.strip() for x in auds], cstr)),
               cbool(bool(k.get("unknown_condition")))))


def _assertion_coq(a, n):
    return ("{| a_id := %d%%N; a_sig := %s; a_authn := %s; a_conditions := %s; a_has_subject := %s; a_confirmations := %s; a_name_id := %s |}"
            % (n, _sig_coq(a.get("sig")), clist(a.get("authn", []), lambda s: copt(s.get("session_nooa"), cz)),
               _cond_coq(a.get("conditions")), cbool(a.get("has_subject", True)),
               clist(a["confirmations"] if a.get("has_subject", True) else [], _conf_coq), copt(a.get("name_id") if a.get("has_subject", True) else None, cstr)))


def _float_lt2(v):
    try:
        return float(v) < 2.0
    except ValueError:
        return None


def response_coq(spec, sp_keys=("sp",)):
    from props.c06 import _status_coq
    ids = {}
    for a in spec.get("encrypted", []) + spec["assertions"]:
        ids.setdefault(a["id"], len(ids) + 1)
    valid = spec.get("spelling", "Z") in SPELLINGS and spec.get("valid_instance", True)
    return ("{| r_sig := %s; r_valid_instance := %s; r_irt := %s; r_version := Some %s; r_ver_lt2 := %s; r_destination := %s; "
            "r_issue_instant := %s; r_status := %s; r_assertions := %s; r_encrypted := %s |}"
            % (_sig_coq(spec.get("sig")), cbool(valid), copt(spec.get("irt"), cstr), cstr(spec["version"]),
               copt(_float_lt2(spec["version"]), cbool), copt(spec.get("destination"), cstr), cz(spec["issue_instant"]),
               _status_coq(spec.get("status")),
               clist(spec["assertions"], lambda a: _assertion_coq(a, ids[a["id"]])),
               clist(spec.get("encrypted", []), lambda a: "{| e_opens := %s; e_inner := %s |}" % (
                   cbool(a.get("enc_for", "sp") in sp_keys), _assertion_coq(a, ids[a["id"]]))))), ids


class SPCase(object):
    """one SP configuration + call context, as real objects and as a Coq cfg term"""

    def __init__(self, wrs=False, was=False, waors=False, allow_unsolicited=False, regex=None, slack=0, binding="post",
                 outstanding=None, conv_info=None, endpoints="both", enc_keys=("sp",)):
        self.__dict__.update(locals())
        del self.__dict__["self"]
        self.outstanding = {"req-1": "/came-from-1"} if outstanding is None else outstanding
        self._sp = None

    def key(self):
        return (self.wrs, self.was, self.waors, self.allow_unsolicited, self.regex, self.slack, self.endpoints, tuple(self.enc_keys))

    _cache = {}

    def sp(self):
        k = self.key()
        if k not in SPCase._cache:
            spd = {"want_response_signed": self.wrs, "want_assertions_signed": self.was,
                   "want_assertions_or_response_signed": self.waors, "allow_unsolicited": self.allow_unsolicited}
            if self.regex is not None:
                spd["valid_destination_regex"] = self.regex
            if self.endpoints == "post-only":
                spd["endpoints"] = {"assertion_consumer_service": [(SP_ACS_POST, BINDING_HTTP_POST)]}
            over = {"sp": spd, "encryption_keypairs": [{"key_file": env.key(k2), "cert_file": env.cert(k2)} for k2 in self.enc_keys]}
            if self.slack:
                over["accepted_time_diff"] = self.slack
            SPCase._cache[k] = env.make_sp(**over)
        return SPCase._cache[k]

    def binding_uri(self):
        return {"post": BINDING_HTTP_POST, "redirect": BINDING_HTTP_REDIRECT, "soap": BINDING_SOAP}[self.binding]

    def return_addrs(self):
        if self.binding == "post":
            return [SP_ACS_POST]
        if self.binding == "redirect":
            return [SP_ACS_REDIRECT] if self.endpoints == "both" else None
        return None

    def coq(self, now, destination=None):
        ra = self.return_addrs()
        match = bool(re.search(self.regex, destination)) if (self.regex is not None and destination) else False
        ci = "None"
        if self.conv_info:
            ci = "(Some {| ci_entity_id := %s; ci_remote_addr := %s |})" % (
                copt(self.conv_info.get("entity_id"), cstr), copt(self.conv_info.get("remote_addr"), cstr))
        return ("{| entity_id := %s; return_addrs := %s; wrs := %s; was := %s; waors := %s; allow_unsolicited := %s; "
                "dest_regex_set := %s; dest_regex_match := %s; slack := %s; now := %s; asynch := %s; outstanding := %s; "
                "conv_info := %s; test_mode := false |}"
                % (cstr(SP_ID), copt(ra, lambda l: clist(l, cstr)), cbool(self.wrs), cbool(self.was), cbool(self.waors),
                   cbool(self.allow_unsolicited), cbool(self.regex is not None), cbool(match), cz(self.slack), cz(now),
                   cbool(self.binding != "soap"),
                   clist(list(self.outstanding.items()), lambda kv: "(%s, %s)" % (cstr(kv[0]), cstr(kv[1]))), ci))


SOAP_ENV = '<ns0:Envelope xmlns:ns0="http://schemas.xmlsoap.org/soap/envelope/"><ns0:Body>%s</ns0:Body></ns0:Envelope>'


def run_impl(case, xml, ids):
    """run the real SP; returns Exn(class) or the observable list matching Model.Response.show_outcome"""
    sp = case.sp()
    b = case.binding_uri()
    if case.binding == "post":
        wire = base64.b64encode(xml.encode("utf-8")).decode("ascii")
    elif case.binding == "redirect":
        from saml2_tophat.s_utils import deflate_and_base64_encode
        wire = deflate_and_base64_encode(xml)
    else:
        wire = SOAP_ENV % (xml[xml.index("?>") + 2:] if xml.startswith("<?xml") else xml)
    try:
        r = sp.parse_authn_request_response(wire, b, copy.copy(case.outstanding), conv_info=case.conv_info)
    except BaseException as e:  # noqa
        if isinstance(e, (KeyboardInterrupt, SystemExit)):
            raise
        return Exn(type(e).__name__)
    if r is None:
        return None
    if r.session_not_on_or_after > 0:
        nooa = r.session_not_on_or_after
    else:
        nooa = r.not_on_or_after
    if r.assertion is not None:
        # the API the property names
        nooa_api = r.session_info()["not_on_or_after"]
        if nooa_api != nooa:
            nooa = nooa_api
    return [[ids.get(a.id, 0) for a in r.assertions], r.name_id.text if r.name_id is not None else None, r.came_from,
            int(nooa), r.in_response_to]


def case_coq(case, spec, now):
    rc, ids = response_coq(spec, case.enc_keys)
    return "(%s, %s)" % (case.coq(now, spec.get("destination")), rc), ids


MODEL = "fun cr : cfg * response => show_parse (parse_response (fst cr) (snd cr))"
MODEL_ACCEPT = "fun cr : cfg * response => show_accept (parse_response (fst cr) (snd cr))"
CTYPE = "(cfg * response)"
IMPORTS = "Model.Status Model.Response"
