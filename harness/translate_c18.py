"""Translator for C18: regenerate coq/Gen/IdentConsts.v from /repo's working tree
(ident.ATTR and the name-id format constants ident.py branches on).  Fail-closed."""
import importlib

from core import COQ, cstr, write_if_changed, REPO

HDR = ("(* GENERATED from /repo by harness/translate_c18.py on every run - do not edit *)\n"
       "From PV Require Import Lib.Base.\nOpen Scope N_scope.\n\n")


def regen_ident():
    ident = importlib.import_module("saml2_tophat.ident")
    assert ident.__file__.startswith(REPO + "/src/"), ident.__file__
    attr = ident.ATTR
    if not isinstance(attr, (list, tuple)) or not all(isinstance(a, str) for a in attr):
        raise TypeError("ident.ATTR is not a list of strings: %r" % (attr,))
    consts = []
    for name in ("NAMEID_FORMAT_PERSISTENT", "NAMEID_FORMAT_TRANSIENT", "NAMEID_FORMAT_EMAILADDRESS"):
        v = getattr(ident, name)          # the names ident.py itself imported
        if not isinstance(v, str):
            raise TypeError("%s is not a string" % name)
        consts.append("Definition %s : str := %s.\n" % (name, cstr(v)))
    text = (HDR + "Definition ATTR : list str := [" + "; ".join(cstr(a) for a in attr) + "].\n\n" + "".join(consts))
    return write_if_changed(COQ + "/Gen/IdentConsts.v", text)
