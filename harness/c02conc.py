"""C02 — concurrent use of ONE client / SecurityContext.

Two or three threads call parse_authn_request_response / correctly_signed_response /
_check_signature / decrypt on ONE object at the same time with DIFFERENT documents that share
their element IDs (the signed original, a tampered copy whose signatures are present but do not
verify, another correctly signed message under the same IDs).  Every call has to be judged on
its own octets.

The interleaving is deterministic: the stand-in tool is started through GatedPopen, which parks
the calling thread (a) right before the tool starts — the library has written the call's input
file by then — and (b) right after the tool ended, before the library reads the tool's output
file.  Exactly one thread runs at a time; the controller resumes the parked threads round by
round in a fixed order (every permutation of the callers is one schedule).  So in round 0 every
caller writes its input file, in round 1 every tool runs (after ALL input files were written:
the caller resumed first runs its tool after the others passed their writing point), in round 2
every caller reads its output (after ALL tools wrote theirs), and so on.

For every tool run we record the path and the content digest of the input file when the caller
reached the tool start (= what the library wrote for this call) and again when the tool really
starts, the same for the output file (right after the tool ended / when the caller goes on to
read it), and compare with the digests of the caller's own texts."""
import hashlib
import threading
import time

import xmlsec_core
from saml2_tophat import sigver

# a caller that does not reach a park point (it waits for a lock another caller holds) is left running; once that has
# been seen in a run the controller stops waiting long for such callers
PARK_TIMEOUT = [0.4]
DEADLINE = 30.0


def digest_of_text(text):
    if not isinstance(text, bytes):
        text = text.encode("utf-8")
    return hashlib.sha256(text).hexdigest()[:20]


def digest_of_file(path):
    if not path:
        return None
    try:
        with open(path, "rb") as f:
            return hashlib.sha256(f.read()).hexdigest()[:20]
    except OSError:
        return None


class Worker(object):
    def __init__(self, name, fn):
        self.name, self.fn = name, fn
        self.go, self.parked = threading.Event(), threading.Event()
        self.done, self.at, self.running = False, None, False
        self.result, self.error, self.runs = None, None, []
        self.thread = None


class Stuck(Exception):
    pass


class Sched(object):
    """runs the workers one at a time, switching only at the park points, in rounds of the given order"""
    current = None

    def __init__(self, workers, order):
        self.workers = workers
        self.order = [workers[i] for i in order]
        self.by_thread = {}
        self.trace = []            # (event, worker name, path or None) in the order they happened
        self.shared = []           # (what, path, [names]) — two live calls pointed at one path

    # ---- worker side
    def me(self):
        return self.by_thread.get(threading.current_thread())

    def park(self, w, kind, rec):
        w.at = (kind, rec)
        w.go.clear()
        w.parked.set()
        if not w.go.wait(DEADLINE):
            raise Stuck("%s never resumed" % w.name)
        w.at = None

    def _body(self, w):
        w.go.wait(DEADLINE)
        try:
            w.result = w.fn()
        except BaseException as e:   # noqa  (the harness functions catch the library's exceptions themselves)
            w.error = e
        w.done = True
        w.parked.set()

    # ---- controller side
    def run(self):
        Sched.current = self
        for w in self.workers:
            w.thread = threading.Thread(target=self._body, args=(w,), name="c02-" + w.name)
            w.thread.daemon = True
            self.by_thread[w.thread] = w
            w.thread.start()
        t0 = time.time()
        try:
            while not all(w.done for w in self.workers):
                progressed = False
                for w in self.order:
                    if w.done:
                        continue
                    if not w.running:
                        w.parked.clear()
                        w.go.set()
                    # a caller that does not come back is waiting for something another caller holds: leave it running
                    w.running = not w.parked.wait(PARK_TIMEOUT[0])
                    if w.running:
                        PARK_TIMEOUT[0] = 0.02
                    progressed |= not w.running
                    self._look()
                if time.time() - t0 > DEADLINE:
                    raise Stuck("callers %s did not finish" % [w.name for w in self.workers if not w.done])
        finally:
            Sched.current = None
            for w in self.workers:       # never leave a thread parked
                w.go.set()
        for w in self.workers:
            w.thread.join(DEADLINE)
        return self

    def _look(self):
        """two calls that are alive at the same time must not be pointed at the same file"""
        live = [(w, w.at) for w in self.workers if w.parked.is_set() and not w.done and w.at]
        for what in ("input", "output"):
            seen = {}
            for w, (kind, rec) in live:
                p = rec.get(what)
                if p:
                    seen.setdefault(p, []).append(w.name)
            for p, names in seen.items():
                if len(names) > 1 and (what, p) not in [(a, b) for a, b, _ in self.shared]:
                    self.shared.append((what, p, names))


class GatedPopen(object):
    """sigver.Popen while a schedule is running: parks the calling thread before the tool starts and after it ended"""

    def __init__(self, argv, stderr=None, stdout=None, **kw):
        argv = list(argv)
        s = Sched.current
        w = s.me() if s is not None else None
        cmd = next((c[2:] for c in ("--verify", "--decrypt") if c in argv), None)
        self._w = self._rec = None
        if w is None or cmd is None:
            self._p = xmlsec_core.FakePopen(argv, stderr, stdout, **kw)
            self.returncode = self._p.returncode
            return
        inp = argv[-1]
        outp = argv[argv.index("--output") + 1] if "--output" in argv[:-1] else None
        rec = dict(cmd=cmd, input=inp, output=outp, written=digest_of_file(inp))
        w.runs.append(rec)
        s.trace.append(("write", w.name, inp))
        s.park(w, "start", rec)
        rec["seen"] = digest_of_file(inp)
        s.trace.append(("run", w.name, inp, outp))
        self._p = xmlsec_core.FakePopen(argv, stderr, stdout, **kw)
        self.returncode = self._p.returncode
        rec["rc"] = self.returncode
        rec["out_after_run"] = digest_of_file(outp)
        self._w, self._rec, self._s = w, rec, s

    def communicate(self):
        if self._rec is not None:
            rec, self._rec = self._rec, None
            self._s.park(self._w, "end", rec)
            rec["out_at_read"] = digest_of_file(rec["output"])
            self._s.trace.append(("read", self._w.name, rec["output"]))
        return self._p.communicate()


def install(on=True):
    sigver.Popen = GatedPopen if on else xmlsec_core.FakePopen


def run_schedule(fns, order):
    """fns: list of (name, callable); order: permutation of range(len(fns)).  Returns the Sched (workers carry result / runs)."""
    install(True)
    try:
        return Sched([Worker(n, f) for n, f in fns], order).run()
    finally:
        install(False)


def judge(sched, own_texts):
    """tool-level findings of one schedule: list of (tag, description).  own_texts: name -> set of digests of the texts
    that caller passed in (its document; outputs of its own decrypt runs are added here)"""
    out = []
    own = dict((n, set(v)) for n, v in own_texts.items())
    for w in sched.workers:
        for r in w.runs:
            if r["cmd"] == "decrypt" and r.get("out_after_run"):
                own[w.name].add(r["out_after_run"])
    written_by = {}
    for w in sched.workers:
        for r in w.runs:
            written_by.setdefault(r["written"], set()).add(w.name)
    for w in sched.workers:
        others = set()
        for n, v in own.items():
            if n != w.name:
                others |= v
        for i, r in enumerate(w.runs):
            if "seen" in r and r["seen"] != r["written"]:
                who = sorted(n for n in written_by.get(r["seen"], ()) if n != w.name)
                out.append(("%s:input-overwritten" % r["cmd"],
                            "tool run %d of caller %s (%s) was pointed at %s; the library wrote a text with digest %s there for this call, "
                            "but when the tool started the file held %s (%s)" % (i, w.name, r["cmd"], r["input"], r["written"], r["seen"],
                                                                               "the text written for caller %s" % ",".join(who) if who else "something else")))
            elif r["written"] not in own[w.name] and r["written"] in others:
                out.append(("%s:other-callers-text-written" % r["cmd"],
                            "tool run %d of caller %s (%s): the text the library wrote to %s (digest %s) is not one of this caller's "
                            "texts %s but one of another caller's" % (i, w.name, r["cmd"], r["input"], r["written"], sorted(own[w.name]))))
            if r.get("out_at_read") != r.get("out_after_run"):
                out.append(("%s:output-overwritten" % r["cmd"],
                            "tool run %d of caller %s (%s): the output file %s had digest %s when the tool ended and %s when the "
                            "library read it" % (i, w.name, r["cmd"], r["output"], r.get("out_after_run"), r.get("out_at_read"))))
    for what, p, names in sched.shared:
        out.append(("%s-path-shared" % what, "callers %s were pointed at the same %s file %s while all of them were alive" % (names, what, p)))
    return out


# ---------------------------------------------------------------------------------------------------------------
# scenarios on the real client
# ---------------------------------------------------------------------------------------------------------------
import itertools  # noqa: E402

import c02x  # noqa: E402
import env  # noqa: E402
import pipeline  # noqa: E402
from core import Exn  # noqa: E402
from env import NOW  # noqa: E402
from saml2_tophat import samlp, class_name  # noqa: E402

IMPORTS, MODEL, CTYPE = "Model.Interleave", "show_exec", "(list (N * N * N) * list ev)"
SIGNED_GROUPS = [(shape, rs, as_) for shape in ("plain", "encrypted") for rs, as_ in ((True, False), (False, True), (True, True))]
_sessions = {}
TRACES = []          # model cases (filled by run_scenario)


def session(cls, opts, mode):
    k = (cls, tuple(opts) if mode == "one-client" else None, mode)
    if k not in _sessions:
        _sessions[k] = c02x.Session(cls, dict(zip(c02x.OPT_NAMES, opts)) if mode == "one-client" else {}, mode=mode)
    return _sessions[k]


def invalid_kinds(rs, as_):
    return [k for k in c02x.kinds_for(rs, as_) if k not in ("genuine", "same-id-unsigned", "same-id-resigned", "fresh-id")]


def levels_for(shape, rs, as_):
    out = ["parse"]
    if rs:
        out += ["csr-required", "check-R"]
    else:
        out += ["csr"]
    if as_ and shape == "plain":
        out += ["check-A"]
    if shape == "encrypted":
        out += ["decrypt"]
    return out


def _caller(s, level, key, opts):
    """(callable, expected verdict or None) for one caller; the callable returns a JSON-able observable"""
    m = c02x.message(*key)
    if s.mode == "shared-sec":
        client = s.clients[tuple(opts)]
    else:
        client = s.client
    sec = client.sec
    if level == "parse":
        case = pipeline.SPCase()
        case.sp = lambda: client

        def fn():
            got = pipeline.run_impl(case, m.xml, m.ids)
            return got if isinstance(got, list) else ["rejected"]
        return fn, c02x.documented(tuple(opts), m.rsig, m.asig)
    if level in ("csr", "csr-required"):
        req = level == "csr-required"

        def fn():
            try:
                r = sec.correctly_signed_response(m.xml, must=False, origdoc=None, require_response_signature=req)
            except Exception:
                return ["rejected"]
            if not r:
                return ["rejected"]
            names = [a.subject.name_id.text for a in r.assertion if a.subject is not None and a.subject.name_id is not None]
            return [r.id, names, digest_of_text(str(r))]
        return fn, (m.rsig == "valid") or (m.rsig is None and not req)
    if level in ("check-R", "check-A"):
        def fn():
            item = samlp.response_from_string(m.xml)
            if level == "check-A":
                item = item.assertion[0]
            try:
                r = sec._check_signature(m.xml, item, class_name(item))
            except Exception:
                return ["rejected"]
            return [r.id, r is item] if r else ["rejected"]
        return fn, (m.rsig if level == "check-R" else m.asig) == "valid"
    if level == "decrypt":
        def fn():
            try:
                return [digest_of_text(sec.decrypt(m.xml))]
            except Exception:
                return ["rejected"]
        return fn, None
    raise ValueError(level)


def run_scenario(sc, report=None, out=None):
    """sc: dict(cls, mode, level, callers=[dict(msg=key, opts=[..])], order=[..]).  Runs every caller alone first (the
    same long-lived objects), then all of them at once under the schedule.  report(key, what) receives the findings."""
    findings = []
    rep = report or (lambda key, what: findings.append((key, what)))
    say = out or (lambda *a: None)
    callers = sc["callers"]
    s = session(sc["cls"], callers[0]["opts"], sc["mode"])
    if sc["mode"] == "one-client":
        assert all(c["opts"] == callers[0]["opts"] for c in callers)
    names = "ABCDEFGH"[:len(callers)]
    made = [_caller(s, sc["level"], tuple(c["msg"]), c["opts"]) for c in callers]
    texts = dict((n, {digest_of_text(c02x.message(*c["msg"]).xml)}) for n, c in zip(names, callers))
    tail = "%s:%dcallers:%s" % (sc["level"], len(callers), sc["mode"])

    def cell(c):
        shape, rs, as_, ident, kind = c["msg"]
        return "%s:R=%s:A=%s:%s" % (shape, rs, as_, kind)
    # --- alone, one after the other (fresh file per call, each sees what was written for it)
    solo, used = [], {}
    for n, c, (fn, want) in zip(names, callers, made):
        one = run_schedule([(n, fn)], [0])
        w = one.workers[0]
        if w.error is not None:
            raise w.error
        solo.append(w.result)
        for tag, what in judge(one, {n: texts[n]}):
            rep("tool-saw-other-callers-document:sequential:%s:%s:%s" % (tag, tail, cell(c)), what)
        for r in w.runs:
            prev = used.setdefault(r["input"], r["written"])
            if prev != r["written"]:
                rep("temp-path:reused-with-other-content:sequential:%s:%s" % (r["cmd"], tail),
                    "two consecutive calls on one object were both pointed at %s (texts %s and %s)" % (r["input"], prev, r["written"]))
    say("alone:", dict(zip(names, solo)))
    # --- at the same time
    sched = run_schedule([(n, fn) for n, (fn, _) in zip(names, made)], sc["order"])
    for w in sched.workers:
        if w.error is not None:
            raise w.error
    say("order of resumption per round:", [names[i] for i in sc["order"]])
    say("events:", [(t[0], t[1]) + tuple((p or "-").rsplit("/", 1)[-1] for p in t[2:]) for t in sched.trace])
    for tag, what in judge(sched, texts):
        key = ("temp-path:shared-by-live-calls:%s:%s" % (tag, tail) if tag.endswith("-path-shared")
               else "tool-saw-other-callers-document:%s:%s" % (tag, tail))
        rep(key, what)
    for n, c, (fn, want), alone, w in zip(names, callers, made, solo, sched.workers):
        got = w.result
        say("caller %s %-55s alone: %-50s concurrently: %s" % (n, c["msg"], alone, got))
        acc = got != ["rejected"]
        if want is None:
            want = alone != ["rejected"]
        m = c02x.message(*c["msg"])
        if acc and not want:
            why = ("accepted-invalid-signature" if "corrupt" in (m.rsig, m.asig) or sc["level"] != "parse" else "accepted-against-the-rule")
            rep("concurrent:%s:%s:%s" % (why, tail, cell(c)),
                "caller %s: %s was accepted while %d other caller(s) used the same object with other documents under the same IDs "
                "(alone it is %s; response sig %s, assertion sig %s, options %s)" % (n, c["msg"], len(callers) - 1, alone, m.rsig, m.asig, c["opts"]))
        elif want and not acc:
            rep("concurrent:refused-valid:%s:%s" % (tail, cell(c)),
                "caller %s: %s was refused while other callers used the same object (alone: %s)" % (n, c["msg"], alone))
        elif got != alone:
            rep("concurrent:result-of-other-document:%s:%s" % (tail, cell(c)),
                "caller %s: %s gave %s, alone it gives %s" % (n, c["msg"], got, alone))
    # --- the schedule as a model case: paths and texts numbered in order of appearance (0 = nothing)
    pid, did, ev, seen, tool = {}, {None: 0}, [], [], {}
    cid = dict((n, i) for i, n in enumerate(names))
    per = dict((n, iter(w.runs)) for n, w in zip(names, sched.workers))
    open_run = {}
    P = lambda p: pid.setdefault(p, len(pid))          # noqa: E731
    D = lambda d: did.setdefault(d, len(did))          # noqa: E731
    for t in sched.trace:
        e, n = t[0], t[1]
        if e == "write":
            r = open_run[n] = next(per[n])
            ev.append("Write %d %d %d" % (cid[n], P(t[2]), D(r["written"])))
        elif e == "run":
            r = open_run[n]
            kind = 1 if r["cmd"] == "decrypt" else 0
            ev.append("Run %d %d %d %d" % (cid[n], kind, P(t[2]), P(t[3])))
            seen.append([cid[n], D(r.get("seen")) if r.get("seen") else None])
            tool[(kind, D(r.get("seen")))] = D(r.get("out_after_run"))
        else:
            r = open_run[n]
            ev.append("Read %d %d" % (cid[n], P(t[2])))
            seen.append([cid[n], D(r.get("out_at_read")) if r.get("out_at_read") else None])
    coq = "([%s], [%s])" % ("; ".join("(%d, %d, %d)" % (k[0], k[1], v) for k, v in sorted(tool.items())), "; ".join(ev))
    TRACES.append(dict(coq=coq, events=ev, seen=seen, show=sc))
    return findings


def _orders(n, rng, k):
    perms = list(itertools.permutations(range(n)))
    if n == 2:
        return perms
    rng.shuffle(perms)
    return perms[:k]


def scenarios(ctx):
    """the scenario list of one run (quick: about 300 schedules)"""
    rng, out = ctx.rng, []
    allopts = list(itertools.product([False, True], repeat=3))
    reps = 1 if ctx.quick else 4

    def add(cls, mode, level, keys, opts_list, order):
        out.append(dict(cls=cls, mode=mode, level=level, order=list(order),
                        callers=[dict(msg=list(k), opts=list(o)) for k, o in zip(keys, opts_list)]))
    for rep in range(reps):
        for opts in allopts:
            cls = "SPConfig" if (sum(opts) + rep) % 2 == 0 else "Config"
            for shape, rs, as_ in SIGNED_GROUPS:
                ident = rng.randint(0, 1)
                g = (shape, rs, as_, ident, "genuine")
                bad = (shape, rs, as_, ident, rng.choice(invalid_kinds(rs, as_)))
                other = (shape, rs, as_, ident, "same-id-resigned")
                for order in _orders(2, rng, 2):
                    add(cls, "one-client", "parse", [g, bad], [opts, opts], order)
                add(cls, "one-client", "parse", [g, other], [opts, opts], rng.choice(_orders(2, rng, 2)))
            for shape, rs, as_ in rng.sample(SIGNED_GROUPS, 2):
                ident = rng.randint(0, 1)
                keys = [(shape, rs, as_, ident, "genuine"), (shape, rs, as_, ident, rng.choice(invalid_kinds(rs, as_))),
                        (shape, rs, as_, ident, "same-id-resigned")]
                for order in _orders(3, rng, 2):
                    add(cls, "one-client", "parse", keys, [opts] * 3, order)
        # the SecurityContext directly (it does not depend on the options), and several clients on ONE SecurityContext
        for cls, mode, opts in (("SPConfig", "one-client", rng.choice(allopts)), ("Config", "shared-sec", None)):
            for shape, rs, as_ in SIGNED_GROUPS:
                ident = rng.randint(0, 1)
                for level in levels_for(shape, rs, as_):
                    o2 = [opts, opts] if opts is not None else [rng.choice(allopts), rng.choice(allopts)]
                    if level == "parse" and mode == "one-client":
                        continue
                    g = (shape, rs, as_, ident, "genuine")
                    bad = (shape, rs, as_, ident, rng.choice(invalid_kinds(rs, as_)))
                    for order in _orders(2, rng, 2):
                        add(cls, mode, level, [g, bad], o2, order)
                    if level in ("parse", "decrypt", "csr-required"):
                        o3 = [opts] * 3 if opts is not None else [rng.choice(allopts) for _ in range(3)]
                        keys = [g, bad, (shape, rs, as_, ident, "same-id-resigned")]
                        add(cls, mode, level, keys, o3, _orders(3, rng, 1)[0])
    return out


def run_all(ctx):
    del TRACES[:]
    _sessions.clear()
    n = 0
    for sc in scenarios(ctx):
        def report(key, what, sc=sc):
            ctx.oracle_fail(key, what, {"concurrent": sc})
        try:
            run_scenario(sc, report)
        except Stuck as e:
            ctx.oracle_fail("concurrent:callers-stuck:%s:%dcallers" % (sc["level"], len(sc["callers"])), str(e), {"concurrent": sc})
        n += 1
        ctx.nontriv(("concurrent", sc["cls"], sc["mode"], sc["level"], tuple(sc["order"]),
                     tuple((tuple(c["msg"]), tuple(c["opts"])) for c in sc["callers"])))
        ctx.count("concurrent:%s:%dcallers" % (sc["level"], len(sc["callers"])))
        if n % 90 == 1:
            ctx.sample(dict(concurrent=sc, events=TRACES[-1]["events"] if TRACES else None))
    return n


def replay(sc):
    env.tool_inprocess(True)
    with env.Clock(NOW):
        print("replay of a schedule: %d callers on one %s (%s), level %s" % (len(sc["callers"]), "SecurityContext" if sc["mode"] == "shared-sec" else "client", sc["cls"], sc["level"]))
        found = run_scenario(sc, out=print)
    for key, what in found:
        print("  VIOLATION %s: %s" % (key, what))
    if not found:
        print("  no finding")
    return 0
