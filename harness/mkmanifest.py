"""Regenerate /verif/MANIFEST.json from the CLAIM dict of every harness/props/cXX.py."""
import importlib
import json
import os
import sys

ROOT = os.path.dirname(os.path.dirname(os.path.abspath(__file__)))
os.environ.setdefault("PYTHONPATH", "/repo/src")
HOLD = {}
NOT_BUILT = "no check is committed for this property yet (framework under construction; planned design in DESIGN.md section 6)"


def main():
    props = [json.loads(l) for l in open(ROOT + "/properties.jsonl")]
    checks, na = [], []
    for p in props:
        pid = p["id"]
        path = ROOT + "/harness/props/%s.py" % pid.lower()
        claim = None
        if os.path.exists(path):
            src = open(path).read()
            ns = {}
            # CLAIM is a literal dict at module level: evaluate only that assignment
            import ast
            for node in ast.parse(src).body:
                if isinstance(node, ast.Assign) and getattr(node.targets[0], "id", None) == "CLAIM":
                    claim = ast.literal_eval(node.value)
        if pid in HOLD:
            na.append({"property_id": pid, "reason": HOLD[pid]})
            continue
        if claim is None:
            na.append({"property_id": pid, "reason": NOT_BUILT})
            continue
        checks.append({
            "property_id": pid,
            "quick_cmd": "./check %s --tier quick" % pid,
            "thorough_cmd": "./check %s --tier thorough" % pid,
            "evidence_file": "/verif/evidence/%s.json" % pid,
            "replay_cmd_template": "./check %s --replay {path}" % pid,
            "engine": "coq-model+correspondence",
            "level_claimed": {"category": "proof", "text": claim["text"], "design_ref": claim.get("design_ref", "DESIGN.md section 6, " + pid)},
            "level_note": claim["note"],
            "technique": claim["technique"],
        })
    m = {
        "version": 1,
        "setup_cmd": "./setup.sh",
        "hooks": {
            "guard": "TOPHATMONOCLE_PYSAML2_VERIF",
            "enable": "no source hooks exist: checks import /repo/src unmodified (PYTHONPATH=/repo/src) and patch clock / tool / randomness from the harness process",
            "baseline_off_cmd": "cd /repo && /venv/bin/python -m pytest -ra -q -p no:cacheprovider --timeout=900 --continue-on-collection-errors",
            "source_commits": [],
            "add_only": True,
        },
        "engines": [{
            "name": "coq-model+correspondence", "path": "/verif/check",
            "serves_properties": [c["property_id"] for c in checks],
            "kind_free_text": "Coq 8.16.1 theorems about hand-written executable Gallina models (coq/Model, coq/Proofs, coq/Props) and regenerated tables (coq/Gen); tie to /repo by translators (harness/translate.py) and by running the model (vm_compute inside coqc) and the real Python on the same cases (harness/props/*.py)",
        }],
        "checks": checks,
        "notes": "DESIGN.md explains approach, trusted base and per-property status; known_findings.json lists recorded defects; seeded/ holds independently produced breaking changes and which checks catch them.",
        "not_applicable": na,
    }
    with open(ROOT + "/MANIFEST.json", "w") as f:
        json.dump(m, f, indent=1)
    print("checks:", [c["property_id"] for c in checks])


if __name__ == "__main__":
    main()
