"""Reflection translator for the schema tables (C12, C13).

Imports every schema module of /repo's CURRENT working tree and emits, for
every SamlBase subclass, one row of coq/Gen/SchemaTables.v (record types are
in coq/Model/Schema.v).  Names (tags, xml attribute names, member names) are
interned to N; the intern table is kept (and saved as JSON) so that anything
the kernel or the model reports can be printed with real names.  Interning is
injective by construction (one dict).  Fail-closed: any unexpected shape raises.
"""
import importlib
import json
import os

from core import COQ, WORK, REPO, cstr, write_if_changed

PKG = "saml2_tophat"

# methods of SamlBase / ExtensionContainer that take part in parsing or
# serialising; an override of any of them is recorded in the row
ENGINE_METHODS = [
    "harvest_element_tree", "_convert_element_tree_to_member", "_convert_element_attribute_to_member",
    "_add_members_to_element_tree", "_to_element_tree", "become_child_element_of", "to_string",
    "_get_all_c_children_with_order", "set_text", "__setattr__", "__getattr__", "__getattribute__",
    "__new__", "__str__", "register_prefix",
]
BASE_MEMBERS = ["text", "extension_elements", "extension_attributes"]
# names the hand-written models refer to: always interned and given a Coq name
NAMED = {
    "m_subject": "subject", "m_attribute_statement": "attribute_statement", "m_statement": "statement",
    "m_authn_statement": "authn_statement", "m_authz_decision_statement": "authz_decision_statement",
    "m_one_time_use": "one_time_use", "m_proxy_restriction": "proxy_restriction",
    "m_authn_context_decl": "authn_context_decl", "m_authn_context_decl_ref": "authn_context_decl_ref",
    "m_address": "address", "m_dns_name": "dns_name",
    "x_xsi_nil": "{http://www.w3.org/2001/XMLSchema-instance}nil",
    "x_xsi_type": "{http://www.w3.org/2001/XMLSchema-instance}type",
    "x_xmlns_xs": "xmlns:xs",
}


class Tables(object):
    """what the translator read; also used by the generators of c12/c13"""

    def __init__(self):
        self.intern = {}        # str -> int
        self.names = []         # int -> str
        self.classes = []       # class objects, index = class id
        self.cid = {}           # class object -> id
        self.qname = []         # id -> "saml.Assertion"
        self.rows = []          # dict per class
        self.maps = []          # (module short name, tag, by_tag class id|None, from_string class id|None)
        self.validator_keys = []
        self.modules = []

    def n(self, s):
        if not isinstance(s, str):
            raise TypeError("cannot intern %r" % (s,))
        if s not in self.intern:
            self.intern[s] = len(self.names)
            self.names.append(s)
        return self.intern[s]


def schema_modules():
    root = "%s/src/%s" % (REPO, PKG)
    mods = []
    for dp, _dn, fn in os.walk(root):
        for f in fn:
            if not f.endswith(".py"):
                continue
            p = os.path.join(dp, f)
            src = open(p, encoding="utf8", errors="replace").read()
            if "ELEMENT_BY_TAG" in src or "ELEMENT_FROM_STRING" in src or "SamlBase)" in src:
                rel = os.path.relpath(p, root)[:-3].replace("/", ".")
                if rel.endswith("__init__"):
                    rel = rel[:-9]
                if rel:
                    mods.append(PKG + "." + rel)
    return sorted(mods)


def _short(modname):
    return modname[len(PKG) + 1:]


def read_tables():
    base = importlib.import_module(PKG)
    assert base.__file__.startswith(REPO + "/src/"), base.__file__
    SamlBase = base.SamlBase
    T = Tables()
    mods = []
    for mn in schema_modules():
        M = importlib.import_module(mn)     # a schema module that does not import is a broken obligation
        own = [v for v in vars(M).values()
               if isinstance(v, type) and issubclass(v, SamlBase) and v is not SamlBase and v.__module__ == M.__name__]
        if not own and not hasattr(M, "ELEMENT_BY_TAG"):
            continue
        mods.append(M)
        for v in own:
            if v not in T.cid:
                T.cid[v] = len(T.classes)
                T.classes.append(v)
                T.qname.append(_short(mn) + "." + v.__name__)
    T.modules = [m.__name__ for m in mods]
    for k in NAMED.values():
        T.n(k)

    for c in T.classes:
        row = {"id": T.cid[c], "qname": T.qname[T.cid[c]]}
        if not isinstance(c.c_tag, str) or not isinstance(c.c_namespace, str):
            raise TypeError("%s: c_tag / c_namespace" % row["qname"])
        row["qtag"] = T.n("{%s}%s" % (c.c_namespace, c.c_tag))
        row["tag"], row["ns"] = c.c_tag, c.c_namespace
        ch = []
        if not isinstance(c.c_children, dict):
            raise TypeError("%s: c_children is not a dict" % row["qname"])
        for key, v in c.c_children.items():
            if not (isinstance(v, tuple) and len(v) == 2 and isinstance(v[0], str)):
                raise TypeError("%s: c_children[%r] = %r" % (row["qname"], key, v))
            member, cc = v
            islist = isinstance(cc, list)
            if islist:
                if len(cc) != 1:
                    raise TypeError("%s: c_children[%r] list of %d" % (row["qname"], key, len(cc)))
                cc = cc[0]
            if cc is None:
                cid = None
            elif isinstance(cc, type) and cc in T.cid:
                cid = T.cid[cc]
            else:
                raise TypeError("%s: c_children[%r] child class %r is not a listed schema class" % (row["qname"], key, cc))
            ch.append((T.n(key), T.n(member), cid, islist))
        row["children"] = ch
        at = []
        if not isinstance(c.c_attributes, dict):
            raise TypeError("%s: c_attributes is not a dict" % row["qname"])
        for key, v in c.c_attributes.items():
            if not (isinstance(v, tuple) and len(v) == 3 and isinstance(v[0], str)):
                raise TypeError("%s: c_attributes[%r] = %r" % (row["qname"], key, v))
            member, typ, req = v
            if isinstance(typ, type):
                if typ not in T.cid:
                    raise TypeError("%s: attribute %r type class %r is not a listed schema class" % (row["qname"], key, typ))
                t = ("C", T.cid[typ])
            elif isinstance(typ, str):
                t = ("N", typ)
            elif typ is None:
                t = ("None",)
            else:
                raise TypeError("%s: attribute %r type %r" % (row["qname"], key, typ))
            at.append((T.n(key), T.n(member), t, bool(req)))
        row["attrs"] = at
        if not isinstance(c.c_child_order, list) or not all(isinstance(x, str) for x in c.c_child_order):
            raise TypeError("%s: c_child_order" % row["qname"])
        row["order"] = [T.n(x) for x in c.c_child_order]
        card = []
        for m, d in c.c_cardinality.items():
            if not isinstance(d, dict) or set(d) - {"min", "max"} or not all(isinstance(x, int) and not isinstance(x, bool) for x in d.values()):
                raise TypeError("%s: c_cardinality[%r] = %r" % (row["qname"], m, d))
            card.append((T.n(m), d.get("min"), d.get("max")))
        row["card"] = card
        vt = c.c_value_type
        if vt:
            if not isinstance(vt, dict) or set(vt) - {"base", "enumeration", "member", "maxlen"} or "base" not in vt:
                raise TypeError("%s: c_value_type = %r" % (row["qname"], vt))
            en = vt.get("enumeration")
            if en is not None and not (isinstance(en, list) and all(isinstance(x, str) for x in en)):
                raise TypeError("%s: enumeration %r" % (row["qname"], en))
            ml = vt.get("maxlen")
            row["vtype"] = (vt["base"], en, vt.get("member"), None if ml is None else int(ml))
        else:
            row["vtype"] = None
        # members after __init__()
        try:
            o = c()
            have = dict(vars(o))
        except Exception as e:  # a class that cannot be instantiated cannot be parsed
            have = None
            row["init_error"] = type(e).__name__
        declared = [m for (_k, m, _c, _l) in ch] + [m for (_k, m, _t, _r) in at] + row["order"]
        if have is None:
            row["missing"] = sorted(set(declared) | {T.n(b) for b in BASE_MEMBERS})
            row["defaults"] = []
        else:
            row["missing"] = [m for m in dict.fromkeys(declared) if T.names[m] not in have] + \
                             [T.n(b) for b in BASE_MEMBERS if b not in have]
            dfl = []
            for (_k, m, _t, _r) in at:
                v = have.get(T.names[m])
                if v is None:
                    continue
                if not isinstance(v, str):
                    raise TypeError("%s: default of attribute member %s is %r" % (row["qname"], T.names[m], v))
                dfl.append((m, v))
            for (_k, m, _c, _l) in ch:
                v = have.get(T.names[m])
                if v not in (None, []):
                    raise TypeError("%s: default of child member %s is %r" % (row["qname"], T.names[m], v))
            row["defaults"] = dfl
            row["init_text"] = have.get("text")
            row["init_xattrs"] = dict(have.get("extension_attributes") or {})
        over = []
        for name in ENGINE_METHODS:
            mine, base_m = getattr(c, name, None), getattr(SamlBase, name, None)
            if mine is not base_m:
                owner = next((k for k in c.__mro__ if name in vars(k)), None)
                over.append("%s.%s" % (_qual(owner), name))
        row["over"] = over
        if c.verify is not SamlBase.verify:
            owner = next(k for k in c.__mro__ if "verify" in vars(k))
            row["verify"] = _qual(owner)
        else:
            row["verify"] = ""
        T.rows.append(row)

    # ELEMENT_BY_TAG / ELEMENT_FROM_STRING
    for M in mods:
        bt = getattr(M, "ELEMENT_BY_TAG", None)
        fs = getattr(M, "ELEMENT_FROM_STRING", None)
        tags = list(dict.fromkeys(list(bt or {}) + list(fs or {})))
        for tag in tags:
            kc = (bt or {}).get(tag)
            if kc is not None and kc not in T.cid:
                raise TypeError("%s: ELEMENT_BY_TAG[%r] = %r is not a listed class" % (M.__name__, tag, kc))
            by = T.cid[kc] if kc is not None else None
            frm = None
            f = (fs or {}).get(tag)
            if f is not None:
                # which class does the function build?  feed it a minimal element of
                # every class of this module with that local tag
                for cand in [k for k in T.classes if k.c_tag == tag]:
                    try:
                        r = f('<x:%s xmlns:x="%s"/>' % (cand.c_tag, cand.c_namespace))
                    except Exception:
                        r = None
                    if r is not None and type(r) in T.cid:
                        frm = T.cid[type(r)]
                        if type(r).__module__ == M.__name__:
                            break
            T.maps.append((_short(M.__name__), tag, by, frm, bt is not None and tag in bt, fs is not None and tag in fs))
    val = importlib.import_module(PKG + ".validate")
    if not isinstance(val.VALIDATOR, dict):
        raise TypeError("VALIDATOR")
    T.validator_keys = list(val.VALIDATOR.keys())
    lookalikes(T)
    return T


XML_NS = "http://www.w3.org/XML/1998/namespace"
FOREIGN_NS = "urn:pv:foreign"
WRONG_NS = "urn:pv:wrong-ns"


def split_name(s):
    """'{ns}local' -> (ns, local); 'local' -> (None, local)"""
    if s.startswith("{") and "}" in s:
        ns, local = s[1:].split("}", 1)
        return ns, local
    return None, s


def lookalikes(T):
    """C12: for every class, names that LOOK LIKE a declared attribute / child tag (same local name)
    without being one: qualified with the element's own namespace, a foreign namespace, the xml
    namespace, or not qualified at all.  Deterministic from the tables; interned here so that
    Gen/SchemaNames.v (the intern table given back to Coq) contains them.
    T.look_attrs[cid] / T.look_kids[cid] = [(declared key id, kind, look-alike name id)]"""
    T.look_attrs, T.look_kids = [], []
    for row in T.rows:
        declared = {T.names[a[0]] for a in row["attrs"]}
        la = []
        for a in row["attrs"]:
            ns, local = split_name(T.names[a[0]])
            cands = []
            if row["ns"]:
                cands.append(("own-ns", "{%s}%s" % (row["ns"], local)))
            cands.append(("foreign-ns", "{%s}%s" % (FOREIGN_NS, local)))
            cands.append(("xml-ns", "{%s}%s" % (XML_NS, local)))
            if ns is not None:
                cands.append(("bare", local))
            for kind, name in cands:
                if name not in declared:
                    la.append((a[0], kind, T.n(name)))
        T.look_attrs.append(la)
        keys = {T.names[c[0]] for c in row["children"]}
        lk = []
        for c in row["children"]:
            ns, local = split_name(T.names[c[0]])
            cands = [("wrong-ns", "{%s}%s" % (WRONG_NS, local)), ("bare", local)]
            if row["ns"] and row["ns"] != ns:
                cands.append(("parent-ns", "{%s}%s" % (row["ns"], local)))
            for kind, name in cands:
                if name not in keys:
                    lk.append((c[0], kind, T.n(name)))
        T.look_kids.append(lk)


def render_names(T):
    """coq/Gen/SchemaNames.v: the intern table (id -> text) and the look-alike lists"""
    head = ("(* GENERATED from /repo by harness/translate_schema.py on every run - do not edit *)\n"
            "From PV Require Import Lib.Base.\nOpen Scope N_scope.\n\n"
            "(* name_strings[i] = the text of the interned name i (tags, xml attribute names, member names) *)\n")
    body = "Definition name_strings : list str := [\n " + ";\n ".join(cstr(s) for s in T.names) + "\n].\n"
    body += "\n(* (class id, declared xml attribute name, a name with the same local part that is not declared) *)\n"
    body += "Definition lookalike_attrs : list (N * N * N) := %s.\n" % _l(
        [(cid, d, q) for cid, la in enumerate(T.look_attrs) for d, _k, q in la], lambda t: "(%d,%d,%d)" % t)
    body += "\n(* (class id, declared child tag key, a tag with the same local part that is not a key) *)\n"
    body += "Definition lookalike_kids : list (N * N * N) := %s.\n" % _l(
        [(cid, d, q) for cid, lk in enumerate(T.look_kids) for d, _k, q in lk], lambda t: "(%d,%d,%d)" % t)
    return head + body


def _qual(k):
    m = k.__module__
    return (_short(m) if m.startswith(PKG + ".") else m) + "." + k.__name__


# ------------------------------------------------------------------ printing
def _o(x, f=str):
    return "None" if x is None else "(Some %s)" % f(x)


def _z(n):
    return "%d%%Z" % n if n >= 0 else "(%d)%%Z" % n


def _l(xs, f=str):
    return "[" + ";".join(f(x) for x in xs) + "]"


def render(T):
    # distinct small strings (type names, enumeration values, override names) get one definition each
    sdefs = {}

    def sref(s):
        if s not in sdefs:
            sdefs[s] = "s%d" % len(sdefs)
        return sdefs[s]

    lines = []
    for r in T.rows:
        ch = _l(r["children"], lambda c: "CR %d %d %s %s" % (c[0], c[1], _o(c[2]), "true" if c[3] else "false"))

        def at(a):
            t = a[2]
            ts = "(TN %s)" % sref(t[1]) if t[0] == "N" else "(TC %d)" % t[1] if t[0] == "C" else "TNone"
            return "AR %d %d %s %s" % (a[0], a[1], ts, "true" if a[3] else "false")
        ats = _l(r["attrs"], at)
        card = _l(r["card"], lambda c: "(%d,(%s,%s))" % (c[0], _o(c[1], _z), _o(c[2], _z)))
        if r["vtype"] is None:
            vt = "None"
        else:
            b, en, mem, ml = r["vtype"]
            vt = "(Some (VT %s %s %s %s))" % (sref(b), _o(en, lambda e: _l(e, sref)), _o(mem, sref), _o(ml, _z))
        dfl = _l(r["defaults"], lambda d: "(%d,%s)" % (d[0], sref(d[1])))
        lines.append("KR %d %d %s %s %s %s %s %s %s %s %s %s" % (
            r["id"], r["qtag"], ch, ats, _l(r["order"]), card, vt, _l(r["missing"]), dfl,
            _l(r["over"], sref), sref(r["verify"]), "false" if "init_error" in r else "true"))
    maps = _l(T.maps, lambda m: "(%d,(%s,%s),(%s,%s))" % (
        T.n(m[1]), _o(m[2]), _o(m[3]), "true" if m[4] else "false", "true" if m[5] else "false"))
    # tags of ELEMENT maps are interned above (T.n) - render after that
    head = ("(* GENERATED from /repo by harness/translate_schema.py on every run - do not edit *)\n"
            "From PV Require Import Lib.Base Model.Schema.\nOpen Scope N_scope.\n\n")
    body = ""
    for s, nm in sdefs.items():
        body += "Definition %s : str := %s.\n" % (nm, cstr(s))
    body += "\n"
    for nm, s in NAMED.items():
        body += "Definition %s : N := %d.\n" % (nm, T.n(s))
    # local tag of every class (for the ELEMENT_BY_TAG obligation): class id -> interned local tag
    body += "\nDefinition class_local_tag : list N := %s.\n" % _l([T.n(r["tag"]) for r in T.rows])
    body += "\nDefinition actual_schema : schema := [\n " + ";\n ".join(lines) + "\n].\n"
    body += "\n(* (local tag, (ELEMENT_BY_TAG class, class built by ELEMENT_FROM_STRING[tag]), (in BY_TAG, in FROM_STRING)) *)\n"
    body += "Definition element_maps : list (N * (option N * option N) * (bool * bool)) := %s.\n" % maps
    body += "\nDefinition validator_keys : list str := %s.\n" % _l(T.validator_keys, cstr)
    body += "\n(* class ids of the rows recorded as C12 findings in known_findings.json *)\n"
    body += "Definition known_bad_rows : list N := %s.\n" % _l(known_bad_rows(T))
    good, bad = c13_examples(T)
    body += "\n(* C13 non-vacuity examples, read back from real objects: messages that satisfy every declared constraint, *)\n"
    body += "(* and the same messages with exactly one constraint violated somewhere below the root *)\n"
    body += "Definition c13_ex_valid : list inst := [\n %s\n].\n" % ";\n ".join(schema_gen_mod().obj_to_coq(T, o) for o in good)
    body += "Definition c13_ex_violated : list inst := [\n %s\n].\n" % ";\n ".join(schema_gen_mod().obj_to_coq(T, o) for _l, o in bad)
    body += "\n(* a real object (samlp.Response with a signed-shape assertion, typed attribute values, foreign content) read back as a model instance *)\n"
    body += "Definition example_inst : inst := %s.\n" % example_inst(T)
    return head + body


def known_bad_rows(T):
    """class ids named by the C12 entries of known_findings.json (key = reason:module.Class.member)"""
    from core import VERIF
    try:
        kf = json.load(open(VERIF + "/known_findings.json"))
    except OSError:
        return []
    ids = []
    for f in kf.get("findings", []):
        if f.get("property") != "C12" or ":" not in f.get("key", ""):
            continue
        if f["key"].split(":", 1)[0] not in ("tagkey", "none-child", "member-missing", "duplicate-member", "child-order", "row-other"):
            continue    # only row defects name a row (Props/C12.v no longer uses this list: wf_schema is proved for all rows)
        qn = f["key"].split(":", 1)[1].rsplit(".", 1)[0]
        if qn in T.qname and T.qname.index(qn) not in ids:
            ids.append(T.qname.index(qn))
    return sorted(ids)


def schema_gen_mod():
    import schema_gen
    return schema_gen


def _c13_response():
    from saml2_tophat import saml, samlp
    a = saml.Assertion(
        id="a1", version="2.0", issue_instant="2020-01-01T00:00:00Z", issuer=saml.Issuer(text="https://idp.example.org"),
        subject=saml.Subject(name_id=saml.NameID(text="user1", format=saml.NAMEID_FORMAT_PERSISTENT),
                             subject_confirmation=[saml.SubjectConfirmation(
                                 method=saml.SCM_BEARER,
                                 subject_confirmation_data=saml.SubjectConfirmationData(
                                     in_response_to="id1", recipient="https://sp.example.org/acs",
                                     not_on_or_after="2020-01-01T00:10:00Z"))]),
        conditions=saml.Conditions(not_before="2020-01-01T00:00:00Z", not_on_or_after="2020-01-01T00:10:00Z",
                                   audience_restriction=[saml.AudienceRestriction(audience=[saml.Audience(text="https://sp.example.org/sp")])]),
        authn_statement=[saml.AuthnStatement(
            authn_instant="2020-01-01T00:00:00Z", session_index="s1",
            subject_locality=saml.SubjectLocality(address="192.0.2.7"),
            authn_context=saml.AuthnContext(authn_context_class_ref=saml.AuthnContextClassRef(text=saml.AUTHN_PASSWORD)))],
        attribute_statement=[saml.AttributeStatement(attribute=[
            saml.Attribute(name="mail", name_format=saml.NAME_FORMAT_URI, attribute_value=[saml.AttributeValue(text="a@b")])])])
    return samlp.Response(id="r1", version="2.0", issue_instant="2020-01-01T00:00:00Z", in_response_to="id1",
                          destination="https://sp.example.org/acs", issuer=saml.Issuer(text="https://idp.example.org"),
                          assertion=[a], status=samlp.Status(status_code=samlp.StatusCode(value=samlp.STATUS_SUCCESS)))


def _c13_entity():
    from saml2_tophat import md, saml
    from saml2_tophat import xmldsig as ds
    sp = md.SPSSODescriptor(
        protocol_support_enumeration="urn:oasis:names:tc:SAML:2.0:protocol", authn_requests_signed="true",
        want_assertions_signed="false",
        key_descriptor=[md.KeyDescriptor(use="signing", key_info=ds.KeyInfo(key_name=[ds.KeyName(text="k1")]))],
        assertion_consumer_service=[md.AssertionConsumerService(
            binding="urn:oasis:names:tc:SAML:2.0:bindings:HTTP-POST", location="https://sp.example.org/acs", index="0", is_default="true")],
        attribute_consuming_service=[md.AttributeConsumingService(
            index="1", service_name=[md.ServiceName(text="svc", lang="en")],
            requested_attribute=[md.RequestedAttribute(name="mail", is_required="true")])])
    return md.EntityDescriptor(entity_id="https://sp.example.org/sp", valid_until="2030-01-01T00:00:00Z", cache_duration="PT1H",
                               spsso_descriptor=[sp],
                               contact_person=[md.ContactPerson(contact_type="technical", given_name=md.GivenName(text="A"))])


def c13_examples(T):
    """(valid objects, [(label, object with exactly one constraint violated below the root)])"""
    good = [_c13_response(), _c13_entity()]
    bad = []

    def resp(label, f):
        r = _c13_response()
        f(r)
        bad.append((label, r))

    def ent(label, f):
        e = _c13_entity()
        f(e)
        bad.append((label, e))
    resp("required attribute missing (Assertion/@ID), depth 1", lambda r: setattr(r.assertion[0], "id", None))
    resp("required attribute empty (Assertion/@Version), depth 1", lambda r: setattr(r.assertion[0], "version", ""))
    resp("required attribute missing (StatusCode/@Value), depth 2", lambda r: setattr(r.status.status_code, "value", None))
    resp("too few children (AudienceRestriction without Audience), depth 3",
         lambda r: setattr(r.assertion[0].conditions.audience_restriction[0], "audience", []))
    resp("too many children (two Subjects where max is 1), depth 1",
         lambda r: setattr(r.assertion[0], "subject", [r.assertion[0].subject, _c13_response().assertion[0].subject]))
    ent("boolean attribute (RequestedAttribute/@isRequired = maybe), depth 3",
        lambda e: setattr(e.spsso_descriptor[0].attribute_consuming_service[0].requested_attribute[0], "is_required", "maybe"))
    ent("integer-kind attribute (AssertionConsumerService/@index = 70000, an unsignedShort), depth 2",
        lambda e: setattr(e.spsso_descriptor[0].assertion_consumer_service[0], "index", "70000"))
    ent("integer-kind attribute (AttributeConsumingService/@index = x1), depth 2",
        lambda e: setattr(e.spsso_descriptor[0].attribute_consuming_service[0], "index", "x1"))
    ent("enumerated attribute (KeyDescriptor/@use = other), depth 2",
        lambda e: setattr(e.spsso_descriptor[0].key_descriptor[0], "use", "other"))
    ent("enumerated attribute (ContactPerson/@contactType = boss), depth 1",
        lambda e: setattr(e.contact_person[0], "contact_type", "boss"))
    ent("too few children (SPSSODescriptor without AssertionConsumerService), depth 1",
        lambda e: setattr(e.spsso_descriptor[0], "assertion_consumer_service", []))
    ent("too few children (AttributeConsumingService without RequestedAttribute), depth 2",
        lambda e: setattr(e.spsso_descriptor[0].attribute_consuming_service[0], "requested_attribute", []))
    ent("required attribute missing (AssertionConsumerService/@Location), depth 2",
        lambda e: setattr(e.spsso_descriptor[0].assertion_consumer_service[0], "location", None))
    return good, bad


def example_inst(T):
    import schema_gen
    from saml2_tophat import saml, samlp, ExtensionElement
    a = saml.Assertion(
        id="a1", version="2.0", issue_instant="2020-01-01T00:00:00Z", issuer=saml.Issuer(text="https://idp.example.org"),
        subject=saml.Subject(name_id=saml.NameID(text="user<1>", format=saml.NAMEID_FORMAT_PERSISTENT)),
        conditions=saml.Conditions(not_before="2020-01-01T00:00:00Z",
                                   audience_restriction=[saml.AudienceRestriction(audience=[saml.Audience(text="sp1"), saml.Audience(text="sp2")])]),
        attribute_statement=[saml.AttributeStatement(attribute=[
            saml.Attribute(name="mail", attribute_value=[saml.AttributeValue(text="a@b"), saml.AttributeValue(text="c&d")]),
            saml.Attribute(name="empty", attribute_value=[saml.AttributeValue()])])])
    r = samlp.Response(id="r1", version="2.0", issue_instant="2020-01-01T00:00:00Z", assertion=[a],
                       status=samlp.Status(status_code=samlp.StatusCode(value=samlp.STATUS_SUCCESS)))
    r.extension_attributes["{urn:pv:foreign}x"] = "1"
    r.extension_elements.append(ExtensionElement("Ext", "urn:pv:foreign", text="t", attributes={"k": "v"}))
    a.extension_elements.append(ExtensionElement("Deep", "urn:pv:foreign", children=[ExtensionElement("Inner", None, text="z")]))
    return schema_gen.obj_to_coq(T, r)


_CACHE = {}


def regen(save=True):
    """read the tables, write coq/Gen/SchemaTables.v (only if changed) and the intern table"""
    T = read_tables()
    text = render(T)
    names_text = render_names(T)
    if save:
        write_if_changed(COQ + "/Gen/SchemaTables.v", text)
        write_if_changed(COQ + "/Gen/SchemaNames.v", names_text)
        os.makedirs(WORK, exist_ok=True)
        with open(WORK + "/schema_intern.json", "w") as f:
            json.dump({"names": T.names, "classes": T.qname}, f)
    _CACHE["T"] = T
    return T


def tables():
    return _CACHE.get("T") or regen()


if __name__ == "__main__":
    t = regen()
    print(len(t.classes), "classes,", len(t.names), "names,", len(t.maps), "map rows")
