"""Building SAML responses from a declarative spec with pysaml2's own element
classes (so they are what an IdP built on the library would emit), signing
through the stand-in tool, and running them through the real SP."""
import base64
import copy

import env
from env import NOW, ts, IDP_ID, SP_ID, SP_ACS_POST
from saml2_tophat import saml, samlp, sigver, class_name
from saml2_tophat import BINDING_HTTP_POST
from saml2_tophat.saml import SCM_BEARER

PASSWORD = "urn:oasis:names:tc:SAML:2.0:ac:classes:Password"
NAME_FORMAT_URI = "urn:oasis:names:tc:SAML:2.0:attrname-format:uri"


def default_assertion(**over):
    a = {
        "id": "a-1", "issuer": IDP_ID, "version": "2.0", "issue_instant": ts(NOW),
        "name_id": "subject-1",
        "confirmations": [{"method": SCM_BEARER, "in_response_to": "req-1", "recipient": SP_ACS_POST,
                           "not_on_or_after": ts(NOW + 300), "not_before": None, "address": None}],
        "conditions": {"not_before": ts(NOW - 300), "not_on_or_after": ts(NOW + 300), "audiences": [[SP_ID]]},
        "authn": [{"authn_instant": ts(NOW), "session_index": "s-1", "session_not_on_or_after": None,
                   "class_ref": PASSWORD}],
        "attributes": {"urn:oid:2.5.4.42": ["Anna"]},
        "sign": False,
    }
    a.update(over)
    return a


def default_response(**over):
    r = {
        "id": "r-1", "in_response_to": "req-1", "version": "2.0", "issue_instant": ts(NOW),
        "destination": SP_ACS_POST, "issuer": IDP_ID,
        "status": {"code": samlp.STATUS_SUCCESS, "sub": None, "message": None},
        "assertions": [default_assertion()],
        "sign": False,
    }
    r.update(over)
    return r


def _status(st):
    if st is None:
        return None
    if st.get("no_code"):
        return samlp.Status(status_message=samlp.StatusMessage(text="m") if st.get("message") else None)
    sub = None
    if st.get("sub") is not None:
        sub = samlp.StatusCode(value=st["sub"])
    code = samlp.StatusCode(value=st["code"], status_code=sub)
    msg = samlp.StatusMessage(text=st["message"]) if st.get("message") is not None else None
    return samlp.Status(status_code=code, status_message=msg)


def _assertion(a):
    confs = []
    for c in a["confirmations"]:
        data = None
        if c.get("data", True):
            data = saml.SubjectConfirmationData(
                in_response_to=c.get("in_response_to"), recipient=c.get("recipient"),
                not_on_or_after=c.get("not_on_or_after"), not_before=c.get("not_before"),
                address=c.get("address"))
        confs.append(saml.SubjectConfirmation(method=c["method"], subject_confirmation_data=data))
    subject = saml.Subject(name_id=saml.NameID(text=a["name_id"], format=saml.NAMEID_FORMAT_TRANSIENT)
                           if a.get("name_id") is not None else None, subject_confirmation=confs)
    cond = None
    if a.get("conditions") is not None:
        c = a["conditions"]
        cond = saml.Conditions(
            not_before=c.get("not_before"), not_on_or_after=c.get("not_on_or_after"),
            audience_restriction=[saml.AudienceRestriction(audience=[saml.Audience(text=x) for x in auds])
                                  for auds in c.get("audiences", [])])
    authn = []
    for s in a.get("authn", []):
        authn.append(saml.AuthnStatement(
            authn_instant=s["authn_instant"], session_index=s.get("session_index"),
            session_not_on_or_after=s.get("session_not_on_or_after"),
            authn_context=saml.AuthnContext(authn_context_class_ref=saml.AuthnContextClassRef(text=s["class_ref"]))))
    attrs = []
    for name, vals in (a.get("attributes") or {}).items():
        attrs.append(saml.Attribute(name=name, name_format=NAME_FORMAT_URI,
                                    attribute_value=[saml.AttributeValue(text=v) for v in vals]))
    ast = [saml.AttributeStatement(attribute=attrs)] if attrs else []
    obj = saml.Assertion(id=a["id"], version=a["version"], issue_instant=a["issue_instant"],
                         issuer=saml.Issuer(text=a["issuer"]) if a.get("issuer") is not None else None,
                         subject=subject, conditions=cond, authn_statement=authn, attribute_statement=ast)
    return obj


_idp = None


def signer(keyname="idp"):
    """a SecurityContext that signs with harness key `keyname` through the stand-in"""
    global _idp
    if _idp is None:
        _idp = {}
    if keyname not in _idp:
        srv = env.make_idp(key_file=env.key(keyname), cert_file=env.cert(keyname))
        _idp[keyname] = srv.sec
    return _idp[keyname]


def build(spec, sign_alg=None, digest_alg=None):
    """spec -> XML text.  Elements with spec['sign'] (True or a key name) are
    signed, assertions first (inside-out), through the stand-in tool."""
    assertions = [_assertion(a) for a in spec["assertions"]]
    r = samlp.Response(id=spec["id"], in_response_to=spec.get("in_response_to"), version=spec["version"],
                       issue_instant=spec["issue_instant"], destination=spec.get("destination"),
                       issuer=saml.Issuer(text=spec["issuer"]) if spec.get("issuer") is not None else None,
                       status=_status(spec.get("status")), assertion=assertions)
    to_sign = []
    for a, obj in zip(spec["assertions"], assertions):
        if a.get("sign"):
            kn = a["sign"] if isinstance(a["sign"], str) else "idp"
            obj.signature = sigver.pre_signature_part(obj.id, env.cert_b64(kn), sign_alg=sign_alg, digest_alg=digest_alg)
            to_sign.append((class_name(obj), obj.id, kn))
    if spec.get("sign"):
        kn = spec["sign"] if isinstance(spec["sign"], str) else "idp"
        r.signature = sigver.pre_signature_part(r.id, env.cert_b64(kn), sign_alg=sign_alg, digest_alg=digest_alg)
        to_sign.append((class_name(r), r.id, kn))
    text = str(r)
    for node_name, node_id, kn in to_sign:
        text = signer(kn).sign_statement(text, node_name=node_name, node_id=node_id)
    return text


def post(sp, xml, outstanding=None, binding=BINDING_HTTP_POST, **kw):
    """run the SP's public entry point on the message; returns the AuthnResponse"""
    octets = xml if isinstance(xml, bytes) else xml.encode("utf-8")      # bytes: sent exactly as given (other encodings, stray octets)
    b64 = base64.b64encode(octets).decode("ascii") if binding == BINDING_HTTP_POST else xml
    if outstanding is None:
        outstanding = {"req-1": "/came-from"}
    return sp.parse_authn_request_response(b64, binding, copy.copy(outstanding), **kw)


def observe(sp, xml, **kw):
    """canonical observable of an SP run: Exn(class) | None | identity summary"""
    from core import Exn
    try:
        r = post(sp, xml, **kw)
    except BaseException as e:  # noqa
        if isinstance(e, (KeyboardInterrupt, SystemExit)):
            raise
        return Exn(type(e).__name__)
    if r is None:
        return None
    info = r.session_info()
    return ["accepted", r.name_id.text if r.name_id is not None else None,
            sorted((k, sorted(v)) for k, v in (r.ava or {}).items()),
            info["not_on_or_after"], r.in_response_to, r.came_from]
