"""Translator for C10: regenerate coq/Gen/RequestTable.v from /repo's working tree.

One row per public request entry point, RECORDED from the code (nothing is
copied from the harness's own table):
  (method, request class handed to _parse_request, msgtype of that class, service,
   msgtype its signature_check hands to correctly_signed_message,
   the text and `must` passed through unchanged,
   root tags that correctly_signed_message(<msgtype>) accepts out of CANDIDATES,
   SOAP reader parse_soap_enveloped_saml_<msgtype> exists,
   root tags that reader accepts out of CANDIDATES,
   which of the pipeline steps _loads / loads / _verify / verify / issue_instant_ok the class resolves to a
   definition OTHER than Request's own - the model has one of each for all kinds)
Fail-closed: an unexpected shape raises -> broken obligation."""
import importlib

from core import COQ, cstr, cbool, clist, write_if_changed, REPO

HDR = ("(* GENERATED from /repo by harness/translate_c10.py on every run - do not edit *)\n"
       "From PV Require Import Lib.Base.\nOpen Scope N_scope.\n\n")

SAMLP = "urn:oasis:names:tc:SAML:2.0:protocol"
SAML = "urn:oasis:names:tc:SAML:2.0:assertion"
REQUEST_TAGS = ["AuthnRequest", "LogoutRequest", "AttributeQuery", "AuthnQuery", "AuthzDecisionQuery",
                "AssertionIDRequest", "NameIDMappingRequest", "ManageNameIDRequest"]
# candidate roots: (label, namespace, local name)
CANDIDATES = ([(t, SAMLP, t) for t in REQUEST_TAGS] +
              [("Response", SAMLP, "Response"), ("LogoutResponse", SAMLP, "LogoutResponse"),
               ("ArtifactResolve", SAMLP, "ArtifactResolve"), ("saml:Assertion", SAML, "Assertion")] +
              [("other:" + t, "urn:example:other", t) for t in REQUEST_TAGS] +
              [("saml:" + t, SAML, t) for t in REQUEST_TAGS])

METHODS = [("Server", "parse_authn_request"), ("Entity", "parse_logout_request"),
           ("Server", "parse_attribute_query"), ("Server", "parse_authn_query"),
           ("Server", "parse_authz_decision_query"), ("Server", "parse_assertion_id_request"),
           ("Server", "parse_name_id_mapping_request"), ("Entity", "parse_manage_name_id_request")]

PIPELINE = ["_loads", "loads", "_verify", "verify", "issue_instant_ok"]

SOAP_ENV = '<e:Envelope xmlns:e="http://schemas.xmlsoap.org/soap/envelope/"><e:Body>%s</e:Body></e:Envelope>'


def _mod(name):
    m = importlib.import_module(name)
    assert m.__file__.startswith(REPO + "/src/"), m.__file__
    return m


def _doc(ns, local):
    return '<r:%s xmlns:r="%s" ID="id-1" Version="2.0" IssueInstant="2026-01-01T00:00:00Z"/>' % (local, ns)


class _Stub(object):
    rec = None

    def _parse_request(self, enc, cls, service, binding):
        self.rec = (enc, cls, service, binding)
        return "RESULT"


def record_rows():
    import env
    server = _mod("saml2_tophat.server")
    entity = _mod("saml2_tophat.entity")
    sigver = _mod("saml2_tophat.sigver")
    soap = _mod("saml2_tophat.soap")
    request = _mod("saml2_tophat.request")
    env.tool_inprocess(True)
    sec = env.make_idp().sec
    rows = []
    for owner, meth in METHODS:
        cls_owner = {"Server": server.Server, "Entity": entity.Entity}[owner]
        f = cls_owner.__dict__.get(meth)
        if f is None:
            raise TypeError("%s.%s is not defined there any more" % (owner, meth))
        stub = _Stub()
        out = f(stub, "ENC", "BINDING")
        if stub.rec is None or out != "RESULT":
            raise TypeError("%s.%s does not return _parse_request's result" % (owner, meth))
        enc, rcls, service, binding = stub.rec
        if enc != "ENC" or binding != "BINDING":
            raise TypeError("%s.%s does not pass the message / binding through" % (owner, meth))
        if not (isinstance(rcls, type) and issubclass(rcls, request.Request)) or not isinstance(service, str):
            raise TypeError("%s.%s: unexpected arguments %r" % (owner, meth, stub.rec))
        msgtype = rcls.msgtype
        # which msgtype does the class's signature_check ask for, and are the arguments passed through
        fake = object.__new__(sigver.SecurityContext)
        calls = []

        def rec(decoded_xml, mt, must=False, origdoc=None, only_valid_cert=False, **kw):
            calls.append((decoded_xml, mt, must, only_valid_cert))
            return "MSG"
        fake.correctly_signed_message = rec
        rq = rcls(fake, ["addr"], None, timeslack=7)
        got = rq.signature_check("XML", origdoc="ORIG", must="MUST", only_valid_cert="OVC")
        if len(calls) != 1 or got != "MSG":
            raise TypeError("%s.signature_check does not end in correctly_signed_message" % rcls.__name__)
        sig_mt = calls[0][1]
        # only_valid_cert is not required to arrive: with the repaired last step of _check_signature it has no effect there
        passed = calls[0][0] == "XML" and calls[0][2] == "MUST"
        # roots accepted by the real correctly_signed_message for that msgtype (unsigned documents, must=False)
        roots = []
        for label, ns, local in CANDIDATES:
            try:
                m = sec.correctly_signed_message(_doc(ns, local), sig_mt, must=False)
                if m is not None:
                    roots.append(label)
            except TypeError:
                pass
        reader = getattr(soap, "parse_soap_enveloped_saml_%s" % msgtype, None)
        soap_roots = []
        if reader is not None:
            for label, ns, local in CANDIDATES:
                try:
                    if reader(SOAP_ENV % _doc(ns, local)):
                        soap_roots.append(label)
                except Exception:
                    pass
        # the steps of the pipeline are Request's own for every kind (looked up as the interpreter would, through the MRO)
        overrides = [n for n in PIPELINE if hasattr(request.Request, n) and getattr(rcls, n) is not getattr(request.Request, n)]
        rows.append(("%s.%s" % (owner, meth), rcls.__name__, msgtype, service, sig_mt, passed, roots,
                     reader is not None, soap_roots, overrides))
    return rows


def regen_request_table():
    rows = record_rows()
    body = ";\n".join("  (%s, %s, %s, %s, %s, %s, %s, %s, %s, %s)" % (
        cstr(r[0]), cstr(r[1]), cstr(r[2]), cstr(r[3]), cstr(r[4]), cbool(r[5]), clist(r[6], cstr), cbool(r[7]),
        clist(r[8], cstr), clist(r[9], cstr)) for r in rows)
    text = (HDR + "Definition request_table : list (str * str * str * str * str * bool * list str * bool * list str * list str) := [\n"
            + body + "\n].\n")
    return write_if_changed(COQ + "/Gen/RequestTable.v", text), rows
