"""Signature-wrapping material for C16 (DESIGN.md 5.1 F15): a federation's validly signed metadata document, the
attacker's documents built around it (the genuine document parked in Extensions / as a nested EntitiesDescriptor, before or
after a top-level ds:Signature that is garbage / a copy of the genuine one / the attacker's own), real XML and its symbolic
twin (Model.Xmlsec.tree)."""
import copy
import itertools
import xml.etree.ElementTree as ET

import env
import resp
from core import cstr, cbool, copt, clist
from saml2_tophat import md, sigver, class_name
from saml2_tophat import BINDING_HTTP_REDIRECT

MDNS = "urn:oasis:names:tc:SAML:2.0:metadata"
EDS = "{%s}EntitiesDescriptor" % MDNS
ED = "{%s}EntityDescriptor" % MDNS
EXT = "{%s}Extensions" % MDNS
DS = "http://www.w3.org/2000/09/xmldsig#"
SIG = "{%s}Signature" % DS
KEYID = {"md": 6, "other": 3}
SAML2P = "urn:oasis:names:tc:SAML:2.0:protocol"
EVIL = "https://evil.example.org/idp"
GOOD = "https://good.example.org/idp"
NODE = {"many": "%s:EntitiesDescriptor" % MDNS, "single": "%s:EntityDescriptor" % MDNS}

TOPS = ["none", "garbage", "garbage-whole", "copied", "own-md", "own-other", "own-md-tampered", "own-md-whole", "own-md-whole-noid"]
PARKS = {"many": ["none", "ext+sig", "ext-sig", "nested+sig", "nested-sig"], "single": ["none", "ext+sig", "ext-sig"]}
ROOTIDS = [None, "evil-1", "dup"]
CERTS = ["md", "other", None]

_n = [0]


def _idp(eid, loc):
    return md.EntityDescriptor(entity_id=eid, idpsso_descriptor=[md.IDPSSODescriptor(
        protocol_support_enumeration=SAML2P,
        single_sign_on_service=[md.SingleSignOnService(binding=BINDING_HTTP_REDIRECT, location=loc)])])


def _sign(obj, keyname, park=None, whole=False):
    """sign pysaml2 object `obj` with harness key `keyname`; `park` (an ET element) is appended to the root's children
    AFTER the signature template before signing, so that it is covered by the digest; `whole`: the Reference is URI=""
    (the whole document) instead of "#" + ID - then obj.id may be None"""
    obj.signature = sigver.pre_signature_part(obj.id or "unused", env.cert_b64(keyname), 1)
    root = ET.fromstring(str(obj))
    k = [i for i, c in enumerate(root) if c.tag == SIG][0]
    if whole:
        ref = root[k].find("{%s}SignedInfo/{%s}Reference" % (DS, DS))
        ref.set("URI", "")
    if park is not None:
        root.insert(k + 1, park)
    text = ET.tostring(root, encoding="unicode")
    xml = resp.signer(keyname).sign_statement(text, class_name(obj))
    signed_by(xml, keyname)
    return xml


GEN_URIS = ["id", "whole", "whole-noid"]


def genuine(kind, uri="id"):
    """the federation's own, validly signed document (key 'md'); Reference "#ID", or URI "" with / without a root ID"""
    _n[0] += 1
    if kind == "many":
        obj = md.EntitiesDescriptor(entity_descriptor=[_idp(GOOD, "https://good.example.org/sso")], name="fed")
    else:
        obj = _idp(GOOD, "https://good.example.org/sso")
    if uri != "whole-noid":
        obj.id = "fed-%d" % _n[0]
    return _sign(obj, "md", whole=uri != "id")


def _parked(kind, gen_root, park):
    """the genuine document as the attacker parks it"""
    if park == "none":
        return None
    g = copy.deepcopy(gen_root)
    if park.endswith("-sig"):
        for s in [c for c in g if c.tag == SIG]:
            g.remove(s)
    if park.startswith("ext"):
        e = ET.Element(EXT)
        e.append(g)
        return e
    return g    # nested EntitiesDescriptor child


def build(kind, gen_xml, top, park, pos, rootid, tamper_attr="cacheDuration"):
    """-> xml text of the attacker's document"""
    gen_root = ET.fromstring(gen_xml)
    gid = gen_root.attrib.get("ID")
    parked = _parked(kind, gen_root, park)
    if kind == "many":
        obj = md.EntitiesDescriptor(entity_descriptor=[_idp(EVIL, "https://evil.example.org/sso")], name="fed")
    else:
        obj = _idp(EVIL, "https://evil.example.org/sso")
    if top.startswith("own"):
        if not top.endswith("-noid"):
            obj.id = "evil-1"
        xml = _sign(obj, "other" if top == "own-other" else "md", parked, whole="-whole" in top)
        if top == "own-md-tampered":
            assert xml.count(' ID="evil-1"') == 1
            xml = xml.replace(' ID="evil-1"', ' %s="PT1H" ID="evil-1"' % tamper_attr)
        return xml
    if rootid is not None:
        obj.id = (gid or "evil-1") if rootid == "dup" else rootid
    root = ET.fromstring(str(obj))
    front = []
    gsig = [c for c in gen_root if c.tag == SIG][0]
    if top != "none":
        s = copy.deepcopy(gsig)
        if top == "garbage-whole":     # whatever the genuine Reference is: a whole-document Reference, value garbage
            s.find("{%s}SignedInfo/{%s}Reference" % (DS, DS)).set("URI", "")
        if top.startswith("garbage"):
            sv = s.find("{%s}SignatureValue" % DS)
            sv.text = "AAAA" + sv.text[4:] if not sv.text.startswith("AAAA") else "BBBB" + sv.text[4:]
        front.append(s)
    if parked is not None:
        if pos == "before":
            front.insert(0, parked)
        else:
            front.append(parked)
    for i, el in enumerate(front):
        root.insert(i, el)
    return ET.tostring(root, encoding="unicode")


def own_ok(top, cert):
    """ground truth, from the construction: does the ROOT's own signature verify under the configured certificate"""
    return (top in ("own-md", "own-md-whole", "own-md-whole-noid") and cert == "md") or (top == "own-other" and cert == "other")


def shape(top, park, pos):
    """which wrapping arrangement (None = not one): the class names used as finding keys"""
    if top in ("garbage", "garbage-whole", "copied") and park.endswith("+sig") and pos == "before":
        return "first-signature-is-the-parked-original"
    if top == "copied" and park.endswith("-sig"):
        return "root-signature-references-the-parked-original"
    return None


def table(kind):
    """every arrangement of the quantifier (deduplicated where a dimension is void)"""
    out = []
    for top, park, pos, rootid, cert in itertools.product(TOPS, PARKS[kind], ["before", "after"], ROOTIDS, CERTS):
        if top.startswith("own") and (pos != "after" or rootid != "evil-1"):
            continue     # the attacker's own signature: root ID fixed by the variant (evil-1, or none for -noid)
        if (top == "none" or park == "none") and pos != "after":
            continue
        out.append((top, park, pos, rootid, cert))
    return out


# ---------------------------------------------------------------- the symbolic twin (Model.Xmlsec.tree)
# Tables recorded when the harness signs: which key produced which SignatureValue over which SignedInfo, and which
# content a DigestValue stands for.  (Same idea as harness/xsw.py; self-contained because the payload of an element must
# not depend on how many children it has: the enveloped-signature transform removes a child.)
_names, _payloads = {}, {}
DIG = {}      # DigestValue text -> symbolic tree of the digested content
SV = {}       # SignatureValue text -> (key id, canonical SignedInfo)


def _intern(table, key):
    if key not in table:
        table[key] = len(table) + 1
    return table[key]


def name_id(tag):
    return _intern(_names, tag)


def _c14n(elem):
    return ET.canonicalize(xml_data=ET.tostring(elem, encoding="unicode"))


def symbolic(elem, ignore=None):
    """ET element -> ('El', name, id, payload, kids) | ('Sg', refs, key, sv_ok); `ignore` = a child element left out"""
    if elem.tag == SIG:
        si = elem.find("{%s}SignedInfo" % DS)
        sv = elem.find("{%s}SignatureValue" % DS)
        refs = []
        if si is not None:
            for ref in si.findall("{%s}Reference" % DS):
                dv = ref.find("{%s}DigestValue" % DS)
                d = DIG.get((dv.text or "").strip() if dv is not None else None)
                if d is None:
                    d = ("El", 999999, None, _intern(_payloads, ("unknown-digest", dv.text if dv is not None else None)), [])
                refs.append((ref.attrib.get("URI", ""), d))
        rec = SV.get((sv.text or "").strip() if sv is not None else None)
        if rec is None or si is None:
            return ("Sg", refs, 0, False)
        return ("Sg", refs, rec[0], rec[1] == _c14n(si))
    attrs = tuple(sorted((k, v) for k, v in elem.attrib.items() if k != "ID"))
    kids = [symbolic(c) for c in elem if c is not ignore]
    text = (elem.text or "") + "".join((c.tail or "") for c in elem)
    return ("El", name_id(elem.tag), elem.attrib.get("ID"), _intern(_payloads, (attrs, text)), kids)


def signed_by(xml, key):
    """remember that every not yet known signature of this document was made with `key`, and what it digested"""
    root = ET.fromstring(xml)
    parents = {c: p for p in root.iter() for c in p}
    ids = {}
    for el in root.iter():
        if "ID" in el.attrib:
            ids.setdefault(el.attrib["ID"], el)
    for s in reversed(list(root.iter(SIG))):
        sv = s.find("{%s}SignatureValue" % DS)
        si = s.find("{%s}SignedInfo" % DS)
        if sv is None or si is None or not (sv.text or "").strip():
            continue
        if sv.text.strip() not in SV:
            SV[sv.text.strip()] = (KEYID[key], _c14n(si))
        for ref in si.findall("{%s}Reference" % DS):
            uri = ref.attrib.get("URI", "")
            target = root if uri == "" else ids.get(uri[1:])
            dv = ref.find("{%s}DigestValue" % DS)
            if target is not None and dv is not None and (dv.text or "").strip() not in DIG:
                DIG[dv.text.strip()] = symbolic(target, ignore=s if parents.get(s) is target else None)


def coq_tree(t):
    if t[0] == "Sg":
        return "(Sg %s %d %s)" % (clist(t[1], lambda r: "(%s, %s)" % (cstr(r[0]), coq_tree(r[1]))), t[2], cbool(t[3]))
    return "(El %d %s %d %s)" % (t[1], copt(t[2], cstr), t[3], clist(t[4], coq_tree))


def twin(xml):
    return symbolic(ET.fromstring(xml))
