"""Driving the real pysaml2 (saml2_tophat) offline: entity construction,
controlled clock, stand-in tool in-process or as executable.  No repo hooks."""
import calendar
import copy
import datetime as _dt
import logging
import os
import sys
import time as _time

_H = os.path.dirname(os.path.abspath(__file__))
sys.path.insert(0, _H + "/tools")
import xmlsec_core  # noqa: E402

logging.disable(logging.CRITICAL)

import saml2_tophat  # noqa: E402
assert saml2_tophat.__file__.startswith((os.environ.get("VERIF_REPO") or "/repo") + "/src/"), saml2_tophat.__file__
from saml2_tophat import BINDING_HTTP_POST, BINDING_HTTP_REDIRECT, BINDING_SOAP  # noqa: E402
from saml2_tophat import sigver, time_util, algsupport  # noqa: E402
from saml2_tophat.config import SPConfig, IdPConfig  # noqa: E402

KEYS = _H + "/keys"
TOOL = _H + "/tools/xmlsec1"
IDP_ID = "https://idp.example.org/idp"
IDP2_ID = "https://idp2.example.org/idp"
SP_ID = "https://sp.example.org/sp"
SP2_ID = "https://sp2.example.org/sp"
SP_ACS_POST = "https://sp.example.org/acs/post"
SP_ACS_REDIRECT = "https://sp.example.org/acs/redirect"
SP_SLO_SOAP = "https://sp.example.org/slo/soap"
IDP_SSO = "https://idp.example.org/sso"


def key(name):
    return "%s/%s.key" % (KEYS, name)


def cert(name):
    return "%s/%s.pem" % (KEYS, name)


def cert_b64(name):
    lines = open(cert(name)).read().strip().split("\n")
    return "".join(lines[1:-1])


# ---------------------------------------------------------------------------
# tool: in-process (fast) or real executable
# ---------------------------------------------------------------------------
_real_popen = sigver.Popen


def tool_inprocess(on=True):
    if on:
        sigver.Popen = xmlsec_core.FakePopen
        algsupport.Popen = xmlsec_core.FakePopen
    else:
        sigver.Popen = _real_popen
        algsupport.Popen = _real_popen


# ---------------------------------------------------------------------------
# controlled clock (patched from the harness; self-checked)
# ---------------------------------------------------------------------------
class _FakeTime(object):
    def __init__(self, clock):
        self._c = clock

    def time(self):
        return float(self._c.now)

    def gmtime(self, t=None):
        return _time.gmtime(self._c.now if t is None else t)

    def __getattr__(self, n):
        return getattr(_time, n)


class Clock(object):
    """with Clock(now) as c: … ; c.now = …  (seconds since epoch, UTC)"""

    def __init__(self, now):
        self.now = int(now)

    def __enter__(self):
        clock = self

        class FakeDT(_dt.datetime):
            @classmethod
            def utcnow(cls):
                return _dt.datetime.utcfromtimestamp(clock.now)

            @classmethod
            def now(cls, tz=None):
                return _dt.datetime.utcfromtimestamp(clock.now)
        self._saved = (time_util.time, time_util.datetime)
        time_util.time = _FakeTime(self)
        time_util.datetime = FakeDT
        self.selfcheck()
        return self

    def __exit__(self, *a):
        time_util.time, time_util.datetime = self._saved

    def selfcheck(self):
        got = time_util.utc_now() if hasattr(time_util, "utc_now") else None
        inst = time_util.instant()
        want = _time.strftime("%Y-%m-%dT%H:%M:%SZ", _time.gmtime(self.now))
        ahead = calendar.timegm(time_util.time_in_a_while(seconds=5).timetuple())
        if inst != want or ahead != self.now + 5 or (got is not None and got != self.now):
            raise RuntimeError("controlled clock is not followed by time_util (instant=%s want=%s)" % (inst, want))


def ts(t):
    """epoch seconds -> SAML dateTime"""
    return _time.strftime("%Y-%m-%dT%H:%M:%SZ", _time.gmtime(t))


NOW = 1790000000  # 2026-09-21T14:13:20Z : fixed reference instant for generated cases


# ---------------------------------------------------------------------------
# entities
# ---------------------------------------------------------------------------
def sp_conf(**over):
    c = {
        "entityid": SP_ID,
        "service": {"sp": {
            "endpoints": {
                "assertion_consumer_service": [(SP_ACS_POST, BINDING_HTTP_POST),
                                               (SP_ACS_REDIRECT, BINDING_HTTP_REDIRECT)],
                "single_logout_service": [(SP_SLO_SOAP, BINDING_SOAP)],
            },
            "want_response_signed": False,
            "want_assertions_signed": False,
            "allow_unsolicited": False,
        }},
        "key_file": key("sp"), "cert_file": cert("sp"),
        "encryption_keypairs": [{"key_file": key("sp"), "cert_file": cert("sp")}],
        "xmlsec_binary": TOOL,
        "metadata": {"inline": []},
    }
    spover = over.pop("sp", {})
    c["service"]["sp"].update(spover)
    c.update(over)
    return c


def idp_conf(**over):
    c = {
        "entityid": IDP_ID,
        "service": {"idp": {
            "endpoints": {
                "single_sign_on_service": [(IDP_SSO, BINDING_HTTP_REDIRECT)],
                "single_logout_service": [("https://idp.example.org/slo", BINDING_SOAP)],
            },
            "policy": {"default": {"lifetime": {"minutes": 15}, "attribute_restrictions": None,
                                   "name_form": "urn:oasis:names:tc:SAML:2.0:attrname-format:uri"}},
        }},
        "key_file": key("idp"), "cert_file": cert("idp"),
        "xmlsec_binary": TOOL,
        "metadata": {"inline": []},
    }
    idpover = over.pop("idp", {})
    c["service"]["idp"].update(idpover)
    c.update(over)
    return c


def metadata_of(conf, cls):
    """entity descriptor XML generated by pysaml2 itself from a config dict"""
    from saml2_tophat.metadata import entity_descriptor
    cnf = cls().load(copy.deepcopy(dict(conf, metadata={"inline": []})), metadata_construction=True)
    return str(entity_descriptor(cnf))


_md_cache = {}


def cached_md(name, conf, cls):
    if name not in _md_cache:
        _md_cache[name] = metadata_of(conf, cls)
    return _md_cache[name]


def make_sp(idp_md=None, **over):
    from saml2_tophat.client import Saml2Client
    if idp_md is None:
        idp_md = [cached_md("idp", idp_conf(), IdPConfig)]
    conf = sp_conf(**over)
    conf["metadata"] = {"inline": list(idp_md)}
    return Saml2Client(config=SPConfig().load(copy.deepcopy(conf)))


def make_idp(sp_md=None, **over):
    from saml2_tophat.server import Server
    if sp_md is None:
        sp_md = [cached_md("sp", sp_conf(), SPConfig)]
    conf = idp_conf(**over)
    conf["metadata"] = {"inline": list(sp_md)}
    return Server(config=IdPConfig().load(copy.deepcopy(conf)))


def issuer_of(server):
    """the Issuer element the server puts into what it builds: through the library's own (private) helper while it exists,
    otherwise built from the entity id — the harness must not depend on a private name"""
    f = getattr(server, "_issuer", None)
    if callable(f):
        try:
            return f()
        except TypeError:
            pass
    from saml2_tophat import saml as _saml
    return _saml.Issuer(text=server.config.entityid, format=_saml.NAMEID_FORMAT_ENTITY)
