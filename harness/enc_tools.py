"""Helpers for C17: looking at emitted XML the way an outside observer / a key
holder can (structure, which key opens which EncryptedData, which key verifies
which signature, where an identity string is readable), and producing
EncryptedData blobs for arbitrary plaintext with the stand-in tool."""
import base64
import os
import shutil
import tempfile
import urllib.parse
import xml.etree.ElementTree as ET
from xml.sax.saxutils import escape, quoteattr

import env
import xmlsec_core
from saml2_tophat import sigver

SAML = "urn:oasis:names:tc:SAML:2.0:assertion"
SAMLP = "urn:oasis:names:tc:SAML:2.0:protocol"
DS = "http://www.w3.org/2000/09/xmldsig#"
XENC = "http://www.w3.org/2001/04/xmlenc#"

KEYS = ["sp", "sp2", "idp", "other"]          # key ids 1..4 in the Coq terms
KEYID = {k: i + 1 for i, k in enumerate(KEYS)}
GARBAGE_CERT = "QUJDREVGRw=="                    # base64 of 'ABCDEFG': no certificate at all

_tmp = None


def tmpdir():
    global _tmp
    if _tmp is None:
        import core
        os.makedirs(core.WORK, exist_ok=True)
        _tmp = tempfile.mkdtemp(prefix="pv-c17-", dir=core.WORK)
    return _tmp


def cleanup():
    global _tmp
    if _tmp:
        shutil.rmtree(_tmp, ignore_errors=True)
        _tmp = None


def _run(argv):
    rc, so, se = xmlsec_core.run(["xmlsec1"] + argv)
    return rc, se


def local(tag):
    return tag.split("}", 1)[1] if tag.startswith("{") else tag


def ns(tag):
    return tag[1:].split("}", 1)[0] if tag.startswith("{") else ""


def decrypt_element(ed_xml, keyname):
    """plaintext (str) of a stand-alone EncryptedData document under harness key `keyname`, or None"""
    d = tmpdir()
    with open(d + "/ed.xml", "w") as f:
        f.write(ed_xml)
    out = d + "/plain.xml"
    if os.path.exists(out):
        os.unlink(out)
    rc, se = _run(["--decrypt", "--privkey-pem", env.key(keyname), "--id-attr:ID", sigver.ENC_KEY_CLASS, "--output", out, d + "/ed.xml"])
    if rc != 0 or not os.path.exists(out):
        return None
    data = open(out).read()
    return data or None


def opening_keys(ed_xml):
    """[(key id, plaintext)] for every harness key that opens the element"""
    res = []
    for k in KEYS:
        p = decrypt_element(ed_xml, k)
        if p is not None:
            res.append((KEYID[k], p))
    return res


def verifying_key(doc_text, node_name, node_id):
    """id of the harness key under which the signature of element node_id verifies inside doc_text (0: none)"""
    d = tmpdir()
    with open(d + "/doc.xml", "w") as f:
        f.write(doc_text)
    for k in KEYS:
        argv = ["--verify", "--enabled-reference-uris", "empty,same-doc", "--pubkey-cert-pem", env.cert(k), "--id-attr:ID", node_name]
        if node_id:
            argv += ["--node-id", node_id]
        rc, se = _run(argv + ["--output", d + "/v.out", d + "/doc.xml"])
        if rc == 0 and b"OK" in se.split(b"\n"):
            return KEYID[k]
    return 0


def _count(el, name):
    """elements `name` below el, not entering nested Assertion / Advice / EncryptedAssertion"""
    n = 0
    for ch in el:
        ln = local(ch.tag)
        if ln in ("Advice", "Assertion", "EncryptedAssertion"):
            continue
        if ln == name:
            n += 1
        n += _count(ch, name)
    return n


def shape(doc_text):
    """the observable of Model.Encrypt.shape, read off real bytes.
    Returns (list, notes) where notes collects anomalies (several keys open one node ...)."""
    notes = []
    root = ET.fromstring(doc_text)

    def walk(el, text):
        ln = local(el.tag)
        if ln == "Signature" and ns(el.tag) == DS:
            return None  # handled by the parent
        if ln == "EncryptedData" and ns(el.tag) == XENC:
            ks = opening_keys(ET.tostring(el, encoding="unicode"))
            if len(ks) > 1:
                notes.append("EncryptedData opens under %d keys" % len(ks))
            if not ks:
                return [["Enc", 0]]
            kid, plain = ks[0]
            proot = ET.fromstring(plain)
            return [["Enc", kid] + walk(proot, plain)]
        if ln not in ("Response", "Assertion", "EncryptedAssertion", "Advice"):
            return []
        out = [ln]
        if ln == "Assertion":
            out += [_count(el, "NameID"), _count(el, "AttributeValue")]
        for ch in el:
            cl = local(ch.tag)
            if cl == "Signature" and ns(ch.tag) == DS:
                node_name = "%s:%s" % (ns(el.tag), ln)
                out.append(["Signature", verifying_key(text, node_name, el.attrib.get("ID"))])
            else:
                out += walk(ch, text)
        return [out]
    return walk(root, doc_text), notes


def claims_encrypted(doc_text):
    """does anything in the message claim to be encrypted: an EncryptedAssertion / EncryptedData / EncryptedKey
    element at any depth (whatever it contains)"""
    for el in ET.fromstring(doc_text).iter():
        if local(el.tag) in ("EncryptedAssertion", "EncryptedData", "EncryptedKey", "EncryptedID", "EncryptedAttribute"):
            return True
    return False


def spellings(s):
    """the byte forms under which a string could be read off a message without any key"""
    forms = {s, escape(s), quoteattr(s)[1:-1], urllib.parse.quote(s), urllib.parse.quote_plus(s)}
    forms.add(s.encode("utf-8").decode("latin1"))                       # mis-decoded UTF-8
    forms.add("".join("&#%d;" % ord(c) for c in s))
    forms.add("".join("&#x%x;" % ord(c) for c in s))
    raw = s.encode("utf-8")
    for shift in range(3):                                              # base64 of a larger text, at the three alignments
        b = base64.b64encode(b"\0" * shift + raw + b"\0\0\0").decode()
        lo = -(-8 * shift // 6)                                         # first character made of bits of `raw` only
        hi = (8 * shift + 8 * len(raw)) // 6                            # one past the last such character
        core = b[lo:hi]
        if len(core) >= 8:
            forms.add(core)
    if len(raw) >= 4:
        forms.add(raw.hex())
    return [f for f in forms if f]


def readable_in(text, s):
    """is identity string `s` readable in `text` (any spelling), also inside base64 blobs that are not ciphertext"""
    for f in spellings(s):
        if f in text:
            return True
    return False


def enc_blob(plain_xml, certname="sp"):
    """an EncryptedData element (XML text) holding plain_xml for the key of harness cert `certname`"""
    d = tmpdir()
    with open(d + "/data.xml", "w") as f:
        f.write(plain_xml)
    with open(d + "/tmpl.xml", "w") as f:
        f.write(str(sigver.pre_encryption_part()))
    out = d + "/blob.xml"
    rc, se = _run(["--encrypt", "--pubkey-cert-pem", env.cert(certname), "--session-key", "des-192", "--xml-data", d + "/data.xml",
                   "--output", out, d + "/tmpl.xml"])
    if rc != 0:
        raise RuntimeError("stand-in --encrypt failed: %r" % se)
    return open(out).read()
