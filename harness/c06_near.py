"""C06: textual near-misses of the SAML status URNs.

Everything here is written from the SAML core specification (3.2.2.2) as
LITERAL strings — nothing is taken from the library's constants, so a changed
constant or comparison in the library shows as a difference to the spec.
"""

P = "urn:oasis:names:tc:SAML:2.0:status:"
SUCCESS = "urn:oasis:names:tc:SAML:2.0:status:Success"

# the four top-level codes of the specification
TOP_STANDARD = [P + "Success", P + "Requester", P + "Responder", P + "VersionMismatch"]

# second-level code name -> documented error class (response.py class names)
SECOND = {
    "VersionMismatch": "StatusVersionMismatch", "AuthnFailed": "StatusAuthnFailed",
    "InvalidAttrNameOrValue": "StatusInvalidAttrNameOrValue", "InvalidNameIDPolicy": "StatusInvalidNameidPolicy",
    "NoAuthnContext": "StatusNoAuthnContext", "NoAvailableIDP": "StatusNoAvailableIdp",
    "NoPassive": "StatusNoPassive", "NoSupportedIDP": "StatusNoSupportedIdp",
    "PartialLogout": "StatusPartialLogout", "ProxyCountExceeded": "StatusProxyCountExceeded",
    "RequestDenied": "StatusRequestDenied", "RequestUnsupported": "StatusRequestUnsupported",
    "RequestVersionDeprecated": "StatusRequestVersionDeprecated",
    "RequestVersionTooHigh": "StatusRequestVersionTooHigh", "RequestVersionTooLow": "StatusRequestVersionTooLow",
    "ResourceNotRecognized": "StatusResourceNotRecognized", "TooManyResponses": "StatusTooManyResponses",
    "UnknownAttrProfile": "StatusUnknownAttrProfile", "UnknownPrincipal": "StatusUnknownPrincipal",
    "UnsupportedBinding": "StatusUnsupportedBinding", "Responder": "StatusResponder",
}
DOCUMENTED = {P + k: v for k, v in SECOND.items()}      # spec URN -> class name
SPECIFIC = set(DOCUMENTED.values())


def _swapcase_at(s, i):
    return s[:i] + s[i].swapcase() + s[i + 1:]


def near_misses(s, full=True):
    """[(kind, value)] — values textually close to `s`, none equal to it.
    full=False: a thinner set (used for the 21 second-level codes)."""
    out = []

    def add(kind, v):
        if v != s:
            out.append((kind, v))

    colons = [i for i, c in enumerate(s) if c == ":"]
    # proper prefixes ending at ':' and the same without the ':'
    for i in (colons if full else colons[-1:]):
        add("prefix-colon", s[:i + 1])
        if full:
            add("prefix-token", s[:i])
    last = colons[-1] + 1
    # mid-token prefixes
    for i in ([1, 2, 6, 13, 20, 26, last + 1, last + 4, len(s) - 2, len(s) - 1] if full else [len(s) - 1]):
        add("prefix-mid", s[:i])
    # proper suffixes
    for i in (colons if full else colons[-1:]):
        add("suffix-token", s[i + 1:])
        if full:
            add("suffix-colon", s[i:])
    for i in ([1, 4, last + 1, len(s) - 1] if full else [1]):
        add("suffix-mid", s[i:])
    if full:
        for a, b in [(4, 9), (10, 15), (19, 23), (28, 34), (24, 35), (4, len(s) - 1), (1, len(s) - 1)]:
            add("infix", s[a:b])
    # one character dropped / doubled / replaced / case changed
    pos = range(len(s)) if full else sorted({0, 3, colons[-1], last, last + 1, len(s) - 1})
    for i in pos:
        add("drop", s[:i] + s[i + 1:])
        add("double", s[:i + 1] + s[i] + s[i + 1:])
        add("replace", s[:i] + ("x" if s[i] != "x" else "y") + s[i + 1:])
        if s[i].swapcase() != s[i]:
            add("case", _swapcase_at(s, i))
    add("case", s.lower())
    add("case", s.upper())
    add("case", s[:last] + s[last:].lower())
    add("case", s[:last] + s[last:].upper())
    add("case", s[:last].upper() + s[last:])
    # one character added
    for ch in ([":", "/", "#", "s", "?", ".", "0", "_", "-", ";", ","] if full else [":", "s"]):
        add("append", s + ch)
    for ch in ([":", "/", "x", "_"] if full else ["x"]):
        add("prepend", ch + s)
    add("insert", s[:last] + "x" + s[last:])
    add("insert", s[:last] + ":" + s[last:])
    add("insert", s[:last - 1] + "s" + s[last - 1:])
    # surrounding / inner white space (attribute values are not trimmed by XML)
    for kind, v in [("ws-lead", " " + s), ("ws-trail", s + " "), ("ws-both", " " + s + " "),
                    ("ws-tab-lead", "\t" + s), ("ws-tab-trail", s + "\t"), ("ws-nl-lead", "\n" + s),
                    ("ws-nl-trail", s + "\n"), ("ws-crlf-trail", s + "\r\n"), ("ws-two-trail", s + "  "),
                    ("ws-nbsp-trail", s + " "), ("ws-nbsp-lead", " " + s),
                    ("ws-inner", s[:last] + " " + s[last:]), ("ws-inner", s[:last - 1] + " :" + s[last:]),
                    ("ws-zwsp-trail", s + "​"), ("ws-bom-lead", "﻿" + s),
                    ("ws-ideographic-trail", s + "　")]:
        if full or kind in ("ws-lead", "ws-trail", "ws-nl-trail", "ws-nbsp-trail"):
            add(kind, v)
    # other spellings of "the same thing"
    name = s[last:]
    variants = [P.replace("2.0", "1.1") + name, P.replace("2.0", "1.0") + name, P.replace("2.0", "2") + name,
                P.replace("2.0", "2.00") + name, P.replace("2.0", "2_0") + name,
                "samlp:" + name, "urn:oasis:names:tc:SAML:2.0:" + name, P.replace(":status:", ":Status:") + name,
                P.replace(":status:", ":status/") + name, P.replace(":status:", ":status#") + name,
                P.replace("urn:", "URN:") + name, P.replace("urn:", "urn://") + name,
                "http://" + s, s.replace(":", "%3A"), s.replace(":", "::"), s.replace(":", " "),
                s + ":" + name, s + s, s + "," + s, s + " " + s,
                s[:last] + "%" + "%02X" % ord(name[0]) + name[1:]]
    if full:
        variants += [s[:last] + name.replace("s", "ſ", 1) if "s" in name else s + "́",   # long s: upper() == S
                     s[:last] + name.replace("c", "с", 1) if "c" in name else s + "̀",   # cyrillic es
                     s[:last] + "".join(chr(ord(c) + 0xFEE0) for c in name),                         # full-width
                     s + "́", s.replace("S", "Ѕ"), s.replace(":", "："),
                     "", " ", ":", "*", ".*", "%", "None", "null", "0", "true", "True", "OK", "success", "SUCCESS"]
    for v in variants:
        add("variant", v)
    if full:
        out.append(("empty", ""))
    # distinct by value, first kind wins
    seen, res = set(), []
    for kind, v in out:
        if v not in seen and v != s:
            seen.add(v)
            res.append((kind, v))
    return res


def xml_attr(v):
    """the text to put between the quotes of an XML attribute so that a
    conforming parser delivers exactly `v` (white space as character references)"""
    out = []
    for c in v:
        if c == "&":
            out.append("&amp;")
        elif c == "<":
            out.append("&lt;")
        elif c == ">":
            out.append("&gt;")
        elif c == '"':
            out.append("&quot;")
        elif c in "\t\n\r":
            out.append("&#%d;" % ord(c))
        else:
            out.append(c)
    return "".join(out)
