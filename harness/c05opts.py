"""C05 generators for the SPELLINGS of the allow_unsolicited switch in the configuration
(Model/C05Opts.v on top of Model/Client.v's load_special / resolve and Model/Endpoints.v).

A cell is a c05gen cell (its `unsol` field is not used) plus
  spell   name of a spelling (SPELLINGS): how "allow_unsolicited" is written in the sp section
  cls     how the configuration object is made: SPConfig | Config | config_factory
"""
import copy

import env
import c05gen as G
from core import cstr, cbool, cz, clist
from env import NOW

ABSENT = "<absent>"
# name -> the Python value written under service/sp/allow_unsolicited
SPELLINGS = {
    "absent": ABSENT, "None": None, "False": False, "True": True,
    "'false'": "false", "'true'": "true",
    "'False'": "False", "'True'": "True", "'FALSE'": "FALSE", "'TRUE'": "TRUE",
    "''": "", "'0'": "0", "'no'": "no", "' false'": " false", "'false '": "false ",
    "0": 0, "1": 1, "2": 2,
}
# the brief's ten first
CORE = ["absent", "False", "True", "'false'", "'true'", "'False'", "'TRUE'", "''", "0", "1"]
CLASSES = {"SPConfig": "sp", "Config": "", "config_factory": "sp"}
REST = ["want_response_signed", "want_assertions_signed", "want_assertions_or_response_signed"]


def documented(name):
    """what the documentation / plain Python reading says the spelling MEANS: False = unsolicited responses are
    not allowed, True = explicitly allowed, None = the documentation does not say (recorded as the library behaves)"""
    v = SPELLINGS[name]
    if v is ABSENT or v is None:
        return False
    if isinstance(v, bool):
        return v
    if isinstance(v, int):
        return v != 0
    if v == "true":
        return True
    if v in ("false", ""):
        return False
    return None


# the boolean a documented string spelling must behave exactly like
TWIN = {"'false'": "False", "'true'": "True", "absent": "False", "None": "False", "0": "False", "1": "True", "''": "False"}


def spell_coq(name):
    v = SPELLINGS[name]
    if v is ABSENT:
        return "Absent"
    if v is None:
        return "(Val CNone)"
    if isinstance(v, bool):
        return "(Val (CBool %s))" % cbool(v)
    if isinstance(v, int):
        return "(IntVal %s)" % cz(v)
    return "(Val (CStr %s))" % cstr(v)


REST_COQ = clist(REST, lambda n: "(%s, CBool false)" % cstr(n))


class SPCaseO(G.SPCaseE):
    """SPCaseE whose allow_unsolicited is WRITTEN as a given spelling, on a configuration object of a given class"""

    def __init__(self, spell="False", cls="SPConfig", **kw):
        G.SPCaseE.__init__(self, allow_unsolicited=False, **kw)
        self.spell, self.cls = spell, cls

    def key(self):
        return ("O", self.spell, self.cls) + G.SPCaseE.key(self)

    def conf(self):
        conf = env.sp_conf(**self.spdict())
        v = SPELLINGS[self.spell]
        if v is ABSENT:
            del conf["service"]["sp"]["allow_unsolicited"]
        else:
            conf["service"]["sp"]["allow_unsolicited"] = v
        conf["metadata"] = {"inline": [env.cached_md("idp", env.idp_conf(), env.IdPConfig)]}
        return conf

    def fresh_sp(self):
        from saml2_tophat.client import Saml2Client
        from saml2_tophat import config as cfgmod
        conf = copy.deepcopy(self.conf())
        if self.cls == "config_factory":
            cnf = cfgmod.config_factory("sp", conf)
        else:
            cnf = getattr(cfgmod, self.cls)().load(conf)
        return Saml2Client(config=cnf)

    def coq(self, now, destination=None):
        return "{| s_call := %s; s_class := %s; s_others := []; s_rest := %s; s_spell := %s |}" % (
            G.SPCaseE.coq(self, now, destination), cstr(CLASSES[self.cls]), REST_COQ, spell_coq(self.spell))

    def effective_coq(self):
        return "((%s, []), (%s, %s))" % (cstr(CLASSES[self.cls]), REST_COQ, spell_coq(self.spell))


def build(c):
    """cell -> (SPCaseO, response spec)"""
    case0, spec = G.build(c)
    case = SPCaseO(spell=c["spell"], cls=c["cls"], layout=c["layout"], arrive=c["arrive"], regex=G.PATTERNS[c["pattern"]],
                   outstanding=case0.outstanding, conv_info=case0.conv_info)
    return case, spec


def messages(full):
    """the message part of the cells every spelling is walked over: solicited / unsolicited responses in the
    shapes of block S (c05gen): irt x scd, hidden confirmations, encrypted delivery, every browser binding, SOAP"""
    out = []
    for i in G.IRT:
        for s in G.IRT:
            out.append(dict(irt=i, scd=s, confs="single", delivery="plain", arrive="post"))
    n = 0
    for i in ("match", "unknown", "absent"):
        for s in ("match", "other-outstanding", "absent"):
            for cl in ("nodata-first", "scd-then-match"):
                for dl in ("encrypted", "plain+encrypted"):
                    n += 1
                    if not full and (n % 3 != 0) and not (i != "match" and s == "absent" and cl == "nodata-first"):
                        continue
                    out.append(dict(irt=i, scd=s, confs=cl, delivery=dl, arrive=G.BROWSER[n % 3]))
    out.append(dict(irt="unknown", scd="absent", confs="single", delivery="plain", arrive="soap"))
    out.append(dict(irt="match", scd="match", confs="single", delivery="plain", arrive="redirect", outs="empty-came-from"))
    out.append(dict(irt="unknown", scd="match", confs="single", delivery="plain", arrive="artifact", outs="three"))
    return out


def few_messages():
    return [m for m in messages(False) if m["confs"] == "single" and (m["scd"] in ("match", "absent") or m["irt"] == "match")][::2] + [
        dict(irt="unknown", scd="absent", confs="nodata-first", delivery="encrypted", arrive="redirect"),
        dict(irt="match", scd="other-outstanding", confs="scd-then-match", delivery="plain+encrypted", arrive="post")]


def block_spellings(quick):
    """spelling x configuration class x message — whole for SPConfig; the other classes: the ten core spellings x the
    single-confirmation messages (quick) / whole (thorough)"""
    out = []
    for cls in CLASSES:
        for sp in SPELLINGS:
            if quick and cls != "SPConfig" and sp not in CORE:
                continue
            ms = messages(not quick) if (cls == "SPConfig" or not quick) else few_messages()
            for k, m in enumerate(ms):
                out.append(G.cell(kind="O", spell=sp, cls=cls, recip="entity", msg=k, **m))
    return out


def history(rng, spell, cls, n=6):
    """n calls on one FRESH SP object: solicited and unsolicited responses alternate in seeded order"""
    pool = [dict(irt="match", scd="match"), dict(irt="unknown", scd="absent"), dict(irt="absent", scd="absent"),
            dict(irt="match", scd="other-outstanding"), dict(irt="unknown", scd="unknown"), dict(irt="other-outstanding", scd="other-outstanding"),
            dict(irt="match", scd="absent")]
    calls = [dict(pool[0]), dict(pool[1])] + [dict(rng.choice(pool)) for _ in range(n - 2)]
    rng.shuffle(calls)
    out = []
    for m in calls:
        m.update(confs=rng.choice(["single", "single", "nodata-first", "scd-then-match"]),
                 delivery=rng.choice(["plain", "plain", "encrypted"]), arrive=rng.choice(G.BROWSER))
        out.append(G.cell(kind="OH", spell=spell, cls=cls, recip="entity", **m))
    return out
