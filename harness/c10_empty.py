"""C10: required attributes that are PRESENT BUT EMPTY (X="") - the sites and how to build them.

A site = (request kind, path of child members from the root, class at the end of the path, required attribute).
The sites are WALKED over the schema tables reflected from the working tree (translate_schema: c_attributes /
c_children of every class reachable from the eight request classes), so every nesting level the request kinds allow is
reached; the requirement itself is ALSO written down here by hand (DOCUMENTED, from the SAML 2.0 / XML-Enc / XML-DSig
schemas) and the two are compared: a row of the reflected table that stops saying `required` is reported by the
oracle (key required-attribute-table:<class>.<attr>) and the site is generated all the same.

Variants of a site (reqgen.build_request applies r["site"] = (index, variant)):
  base     the enriched request with the attribute set to a good value - must be handed over (control / near miss)
  empty    X=""        - must be refused exactly as
  absent   no X at all - is
"""
import random

import translate_schema

# required attributes by class (qualified as in the reflected tables), from the schemas - NOT from the code
DOCUMENTED = {
    "samlp.AuthnRequest": ["id", "version", "issue_instant"], "samlp.LogoutRequest": ["id", "version", "issue_instant"],
    "samlp.AttributeQuery": ["id", "version", "issue_instant"], "samlp.AuthnQuery": ["id", "version", "issue_instant"],
    "samlp.AuthzDecisionQuery": ["id", "version", "issue_instant", "resource"],
    "samlp.AssertionIDRequest": ["id", "version", "issue_instant"], "samlp.NameIDMappingRequest": ["id", "version", "issue_instant"],
    "samlp.ManageNameIDRequest": ["id", "version", "issue_instant"],
    "samlp.IDPEntry": ["provider_id"],
    "saml.SubjectConfirmation": ["method"], "saml.Attribute": ["name"], "saml.Action": ["namespace"],
    "saml.Assertion": ["version", "id", "issue_instant"], "saml.AuthnStatement": ["authn_instant"],
    "saml.AuthzDecisionStatement": ["resource", "decision"],
    "xmlenc.EncryptionMethod": ["algorithm"], "xmlenc.CipherReference": ["uri"], "xmlenc.DataReference": ["uri"],
    "xmlenc.KeyReference": ["uri"], "xmldsig.Transform": ["algorithm"],
}
KIND_CLASS = {"authn": "AuthnRequest", "logout": "LogoutRequest", "attrq": "AttributeQuery", "authnq": "AuthnQuery",
              "authz": "AuthzDecisionQuery", "aidr": "AssertionIDRequest", "nim": "NameIDMappingRequest", "mni": "ManageNameIDRequest"}
# subtrees left to other checks: the ds:Signature of the request itself and KeyInfo (C20 / C01: what the tool is handed),
# Advice (recursion into whole assertions)
SKIP_MEMBERS = ("signature", "key_info", "advice")
DEPTH = 6
# a good value per attribute (the control variant); everything else comes from Builder.minimal
GOOD = {"method": "urn:oasis:names:tc:SAML:2.0:cm:bearer", "provider_id": "https://idp2.example.org/idp",
        "name": "urn:oid:2.5.4.42", "namespace": "urn:x:actions", "resource": "urn:x:resource", "decision": "Permit",
        "algorithm": "http://www.w3.org/2001/04/xmlenc#aes128-cbc", "uri": "urn:x:ref"}

_S = {}


def _tables():
    if "T" not in _S:
        from props.c13 import Builder
        _S["T"] = T = translate_schema.tables()
        _S["B"] = Builder(T, random.Random(0))
        _S["cid"] = {q: i for i, q in enumerate(T.qname)}
    return _S["T"], _S["B"]


def _walk(T, cid, depth, path, seen, want_attrs):
    """required attributes below class cid: those the reflected row marks, and those DOCUMENTED marks"""
    row = T.rows[cid]
    q = T.qname[cid]
    have = {T.names[m]: req for (_x, m, _t, req) in row["attrs"]}
    for a in sorted(set([n for n, req in have.items() if req]) | set(DOCUMENTED.get(q, []))):
        if a in have:
            yield path, cid, a, bool(have[a]), a in DOCUMENTED.get(q, [])
    if depth == 0:
        return
    for (_k, m, c, islist) in row["children"]:
        if c is None or m in row["missing"] or c in seen or T.names[m] in SKIP_MEMBERS:
            continue
        for s in _walk(T, c, depth - 1, path + ((T.names[m], bool(islist), c),), seen + (cid,), want_attrs):
            yield s


def sites(kind):
    """[dict(kind, path, cls, attr, table_required, documented, label)] for a request kind"""
    key = ("sites", kind)
    if key not in _S:
        T, _B = _tables()
        from saml2_tophat import samlp
        root = T.cid[getattr(samlp, KIND_CLASS[kind])]
        out = []
        for path, cid, a, treq, doc in _walk(T, root, DEPTH, (), (), None):
            label = "/".join(p[0] for p in path) + "@" + a
            out.append(dict(kind=kind, path=path, cls=T.qname[cid], attr=a, table_required=treq, documented=doc, label=label,
                            depth=len(path)))
        _S[key] = out
    return _S[key]


def apply(obj, kind, index, variant):
    """enrich the request object down to the site and set the attribute per variant"""
    T, B = _tables()
    s = sites(kind)[index]
    o = obj
    for (member, islist, c) in s["path"]:
        cur = getattr(o, member, None)
        if isinstance(cur, list) and cur:
            nxt = cur[-1]
        elif cur is not None and not isinstance(cur, list):
            nxt = cur
        else:
            nxt = B.minimal(c)
            # a list member: the instance of interest goes LAST of two, so that a validation that stops after the first does not see it
            setattr(o, member, [B.minimal(c), nxt] if islist and member not in ("one_time_use", "proxy_restriction") else
                    ([nxt] if islist else nxt))
        o = nxt
    if variant == "base":
        if s["depth"] and s["attr"] in GOOD:
            setattr(o, s["attr"], GOOD[s["attr"]])
    elif variant == "empty":
        setattr(o, s["attr"], "")
    elif variant == "absent":
        setattr(o, s["attr"], None)
    else:
        raise KeyError(variant)
    return obj


# ---------------------------------------------------------------------------
# instance trees (Model/Schema.v inst) of requests, for the C13 judgement inside the C10 model (Model/RequestValid.v)
# ---------------------------------------------------------------------------
def inst_of_xml(kind, xml):
    """the instance tree <msgtype>_from_string makes of the text, as a Coq term (INone: not this kind's root)"""
    import schema_gen
    from saml2_tophat import samlp, create_class_from_xml_string
    T, _B = _tables()
    try:
        obj = create_class_from_xml_string(getattr(samlp, KIND_CLASS[kind]), xml)
    except Exception:
        obj = None
    return schema_gen.obj_to_coq(T, obj)


WITNESS_SITE = "scoping/idp_list/idp_entry@provider_id"


def regen_insts():
    """coq/Gen/RequestInst.v: the instance trees of one enriched AuthnRequest - good, ID="", and two levels below Scoping
    IDPEntry ProviderID="" / absent - built by the library's own classes and parsed back from the text, with the class
    and member numbers of THIS run's Gen/SchemaTables.v (witnesses of Props/C10.v (9))"""
    import reqgen as g
    from core import COQ, write_if_changed
    translate_schema.regen()                       # Gen/SchemaTables.v follows the working tree on a C10 run as well
    _S.clear()
    ss = sites("authn")
    deep = [i for i, s in enumerate(ss) if s["label"] == WITNESS_SITE]
    root = [i for i, s in enumerate(ss) if s["label"] == "@id"]
    if not deep or not root:
        raise KeyError("the witness sites are gone from the reflected tables: %s" % [s["label"] for s in ss])

    def term(i, variant):
        r = dict(g.rspec(kind="authn"), site=[i, variant])
        return inst_of_xml("authn", str(g.build_request(r)))
    text = ("(* GENERATED from /repo by harness/c10_empty.py on every run - do not edit *)\n"
            "From PV Require Import Lib.Base Model.Schema.\nOpen Scope N_scope.\n\n"
            "Definition ri_good : inst := %s.\nDefinition ri_empty_root : inst := %s.\n"
            "Definition ri_empty_deep : inst := %s.\nDefinition ri_absent_deep : inst := %s.\n"
            % (term(deep[0], "base"), term(root[0], "empty"), term(deep[0], "empty"), term(deep[0], "absent")))
    return write_if_changed(COQ + "/Gen/RequestInst.v", text)
