"""Real-code side of the (former) model disagreements recorded in coq/Props/Glue.v (docs/Glue.md); set PYTHONPATH to a patched copy to see the repaired behaviour.
Run:  cd <project> && PYTHONPATH=/repo/src:harness PYTHONHASHSEED=0 /venv/bin/python -W ignore harness/glue_probe.py
Prints what the LIBRARY does on the distinguishing input of each witness theorem; nothing is asserted."""
import logging
import warnings
warnings.simplefilter("ignore")
import env
env.tool_inprocess(True)
logging.disable(logging.CRITICAL)
from props import c03
import enc_md
from saml2_tophat import md, samlp, class_name, xmldsig as ds
from saml2_tophat.ident import decode, code
from saml2_tophat.mdstore import MetadataStore, repack_cert
from saml2_tophat.attribute_converter import ac_factory
from saml2_tophat.sigver import _enveloped_signature_ok
from env import IDP_ID, IDP2_ID


def show(title):
    print("\n== " + title)


def run(f):
    try:
        r = f()
        return "accepted" if r is not None else "None"
    except Exception as e:
        return type(e).__name__


# 1. Glue_md_certs_disagreement_witness: signing KeyDescriptor with a certificate + signing KeyDescriptor with a KeyName only
show("1. KeyDescriptor without X509Data (unpatched library = the _before_fix models: KeyError / MissingKey / embedded key accepted; with proposed_fix/C03-1 = MdStore and CertSelect: descriptor skipped)")
s = c03.idp_md(IDP_ID, [("signing", ["idp"]), ("signing", ["other"])])
ed = md.entity_descriptor_from_string(s)
kd = ed.idpsso_descriptor[0].key_descriptor[1]
kd.key_info.x509_data = []
kd.key_info.key_name = [ds.KeyName(text="some-key")]
bad = str(ed)
for only_md in (True, False):
    sp = env.make_sp(idp_md=[bad, c03.idp_md(IDP2_ID, c03.IDP2_LAYOUT)],
                     **{"sp": {"want_response_signed": True}, "only_use_keys_in_metadata": only_md})
    print("certs(issuer, any, signing):", run(lambda: sp.metadata.certs(IDP_ID, "any", "signing")))
    for key, embed in (("idp", "idp"), ("sp2", "sp2")):
        xml = c03.build_signed(IDP_ID, key, embed)
        print("only_use_keys_in_metadata=%s signed with %-3s (declared: idp), own certificate embedded -> %s"
              % (only_md, key, run(lambda: sp.sec.correctly_signed_response(xml))))

# 1b. grouping: de-duplication is per descriptor TYPE, types in certs() order
show("1b. two IDPSSODescriptors sharing a certificate, AttributeAuthorityDescriptor first in the document")
S, E_, U = "signing", "encryption", None
e = enc_md._entity("urn:A", [("attribute_authority", [(S, ["sp2", "sp"])]),
                             ("idpsso", [(E_, ["idp"]), (S, ["sp"])]), ("idpsso", [(U, ["idp"]), (S, ["sp"])])])
names = {repack_cert(env.cert_b64(n)): n for n in ("sp", "sp2", "idp")}
mds = MetadataStore(ac_factory(), None)
mds.load("inline", str(e))
print("certs(A, any, signing) =", [names[c] for c in mds.certs("urn:A", "any", "signing")], " (model: a=sp b=idp c=sp2 -> [a; b; c; a])")

# 2. Glue_xmlsec_precheck_disagreement_witness
show("2. the ID of the request also on an element of another name (Xmlsec.precheck: true; Xsw.precheck / enveloped_ok: false)")
P = "urn:oasis:names:tc:SAML:2.0:protocol"
for oid in (None, "b-2", "a-1"):
    doc = ('<samlp:AuthnRequest xmlns:samlp="%s" xmlns:ds="%s" ID="a-1" Version="2.0"><ds:Signature><ds:SignedInfo>'
           '<ds:Reference URI="#a-1"/></ds:SignedInfo></ds:Signature><samlp:Extensions %s/></samlp:AuthnRequest>'
           % (P, ds.NAMESPACE, ('ID="%s"' % oid) if oid else ""))
    print("Extensions ID = %-5s _enveloped_signature_ok -> %s" % (oid, _enveloped_signature_ok(doc, P + ":AuthnRequest", "a-1")))

# 3. Glue_ident_decode_disagreement_witness
show("3. ident.decode off the image of code() (Ident.decode: text set; Cache.decode: ignored)")
for t in ("-1=a", "04=a", "4=a"):
    print("decode(%r).text = %r" % (t, decode(t).text))

# 5. Glue_check_signature_runs_stale_branch_witness
show("5. nothing verifies, only_valid_cert=True (Sigver.check_signature_runs .. true true: Ok; Request.check_sig repaired: SignatureError)")
sp = env.make_sp(idp_md=[c03.idp_md(IDP_ID, c03.LAYOUTS["signing"]), c03.idp_md(IDP2_ID, c03.IDP2_LAYOUT)],
                 **{"sp": {"want_response_signed": True}})
for key in ("idp", "other"):
    xml = c03.build_signed(IDP_ID, key, None)
    item = samlp.response_from_string(xml)
    for ovc in (False, True):
        print("signed with %-5s only_valid_cert=%-5s -> %s"
              % (key, ovc, run(lambda: sp.sec._check_signature(xml, item, class_name(item), xml, only_valid_cert=ovc))))
