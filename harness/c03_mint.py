"""C03: mint certificates with chosen validity windows for the harness keys (same RSA key, another certificate).

  <key>-exp.pem  notBefore 2020-01-01, notAfter 2021-01-01   (expired at the real clock and at env.NOW)
  <key>-fut.pem  notBefore 2055-01-01, notAfter 2060-01-01   (not yet valid)

The files are committed under harness/keys (deterministic: PKCS#1 v1.5 signatures, fixed serial numbers); run
`/venv/bin/python harness/c03_mint.py` to regenerate them.  `check_windows()` is called by the C03 check on every
run: the windows must really lie on the stated side of BOTH clocks, else the cases would not say what they claim."""
import datetime
import os

KEYS = os.path.join(os.path.dirname(os.path.abspath(__file__)), "keys")
WINDOWS = {"exp": (datetime.datetime(2020, 1, 1), datetime.datetime(2021, 1, 1)),
           "fut": (datetime.datetime(2055, 1, 1), datetime.datetime(2060, 1, 1))}
NAMES = ["idp", "idp2", "other"]


def mint(name, tag, serial):
    from cryptography import x509
    from cryptography.hazmat.primitives import hashes, serialization
    from cryptography.x509.oid import NameOID
    key = serialization.load_pem_private_key(open("%s/%s.key" % (KEYS, name), "rb").read(), None)
    subj = x509.Name([x509.NameAttribute(NameOID.COMMON_NAME, u"pv-%s-%s" % (name, tag))])
    nb, na = WINDOWS[tag]
    cert = (x509.CertificateBuilder().subject_name(subj).issuer_name(subj).public_key(key.public_key())
            .serial_number(serial).not_valid_before(nb).not_valid_after(na).sign(key, hashes.SHA256()))
    with open("%s/%s-%s.pem" % (KEYS, name, tag), "wb") as f:
        f.write(cert.public_bytes(serialization.Encoding.PEM))


def check_windows(now_epoch):
    """every variant is outside its window at the real clock and at `now_epoch`, every base certificate inside;
    the variant holds the SAME public key as the base certificate.  Returns a list of complaints."""
    import time
    from cryptography import x509
    from cryptography.hazmat.primitives import serialization
    bad = []
    instants = [datetime.datetime.utcfromtimestamp(t) for t in (time.time(), now_epoch)]

    def load(n):
        return x509.load_pem_x509_certificate(open("%s/%s.pem" % (KEYS, n), "rb").read())

    def pub(c):
        return c.public_key().public_bytes(serialization.Encoding.DER, serialization.PublicFormat.SubjectPublicKeyInfo)
    for name in NAMES:
        base = load(name)
        for t in instants:
            if not (base.not_valid_before <= t <= base.not_valid_after):
                bad.append("%s.pem is not valid at %s" % (name, t))
        for tag in WINDOWS:
            c = load("%s-%s" % (name, tag))
            if pub(c) != pub(base):
                bad.append("%s-%s.pem does not hold the key of %s.pem" % (name, tag, name))
            for t in instants:
                if tag == "exp" and not c.not_valid_after < t:
                    bad.append("%s-exp.pem has not expired at %s" % (name, t))
                if tag == "fut" and not c.not_valid_before > t:
                    bad.append("%s-fut.pem is already valid at %s" % (name, t))
    return bad


if __name__ == "__main__":
    n = 7000
    for name in NAMES:
        for tag in sorted(WINDOWS):
            n += 1
            mint(name, tag, n)
    print(check_windows(1790000000) or "ok")
