"""C11 translator: the inventory of XML reader call sites and of every use of a
stdlib ElementTree alias in /repo/src/saml2_tophat, regenerated with `ast` on
EVERY check into coq/Gen/XmlSites.v.  Fail-closed: a file that cannot be
parsed, a missing anchor file or an unexpected shape raises (= broken
obligation); a callee that looks like an XML reader but cannot be resolved to
an import is recorded with module None (= Unknown), which the Coq checker
rejects.

What is recorded
  xml_sites : every Call whose callee resolves (through the file's import
      aliases, simple `x = <alias chain>` re-bindings and re-exports of other
      package modules) into an XML module family, except calls of the stdlib
      ElementTree *building* functions (those are in et_uses); every call of a
      strictly XML-reader-named function that resolves to nothing (Unknown);
      every assignment INTO an XML module (re-binding, e.g. monkey-patching
      defusedxml); every constant dynamic import of an XML module.
  et_uses   : every attribute taken from a stdlib ElementTree alias (calls or
      not), every `from <stdlib ET> import name`, every bare use of the alias
      as a value (attr "<object>").
The list of allowed attribute names and the decision procedure are NOT here:
they are the hand-written predicates of coq/Model/XmlEntry.v.
"""
import ast
import importlib.util
import os

from core import COQ, REPO, cstr, write_if_changed

PKG = "saml2_tophat"
SRC = REPO + "/src"
ANCHORS = ["__init__.py", "soap.py", "pack.py", "mdstore.py", "entity.py", "sigver.py"]

# module families that can read XML text
XML_FAMILIES = ("xml", "lxml", "defusedxml", "defusedexpat", "xmlsec", "cElementTree", "elementtree", "_elementtree",
                "pyexpat", "xmltodict", "bs4", "html5lib", "xmlrpc", "plistlib", "untangle", "xmlschema", "genshi")
# the stdlib ElementTree under its historical names
ET_MODULES = ("xml.etree.ElementTree", "xml.etree.cElementTree", "cElementTree", "elementtree.ElementTree",
              "_elementtree", "xml.etree.ElementInclude", "xml.etree.ElementPath")
# reader names that cannot be confused with anything else: an unresolved callee with such a name is Unknown
STRICT_READERS = {"fromstring", "fromstringlist", "XML", "XMLID", "iterparse", "XMLParser", "XMLPullParser", "parseString",
                  "make_parser", "parse_xml", "ParserCreate", "DefusedXMLParser", "XMLTreeBuilder", "canonicalize"}
# `parse` is a reader name too, but far too common (self.parse, urlparse ...): Unknown only as a bare unresolved name
LOOSE_READERS = {"parse"}
# stdlib-ET names that only build / serialise (a convenience copy: such calls are left to et_uses, where the
# authoritative list of Model/XmlEntry.v decides)
ET_BUILDING = {"Element", "SubElement", "tostring", "tostringlist", "register_namespace", "iselement", "_namespace_map",
               "QName", "VERSION", "Comment", "ProcessingInstruction", "PI", "dump", "indent", "ParseError"}
OPTIONAL_CLASS = ("saml2_tophat/sigver.py", "CryptoBackendXMLSecurity")
OPTIONAL_MODULES = ("xmlsec", "lxml")


def family(path):
    return path.split(".")[0] in XML_FAMILIES


def et_split(path):
    """path inside a stdlib ET module -> (module, attr | None) ; else None"""
    best = None
    for m in ET_MODULES:
        if path == m or path.startswith(m + "."):
            if best is None or len(m) > len(best):
                best = m
    if best is None:
        return None
    rest = path[len(best) + 1:]
    return best, (rest.split(".")[0] if rest else None)


def modname_of(rel):
    parts = rel[:-3].split("/")
    if parts[-1] == "__init__":
        parts = parts[:-1]
    return ".".join(parts)


def chain(node):
    """Name/Attribute chain -> ['a','b','c'] or None"""
    out = []
    while isinstance(node, ast.Attribute):
        out.append(node.attr)
        node = node.value
    if isinstance(node, ast.Name):
        out.append(node.id)
        return out[::-1]
    return None


class Aliases(ast.NodeVisitor):
    """name -> set of dotted paths it may be bound to by an import anywhere in the file"""

    def __init__(self, modname, is_pkg):
        self.modname, self.is_pkg = modname, is_pkg
        self.map = {}
        self.local_defs = set()
        self.import_nodes = []

    def bind(self, name, path):
        self.map.setdefault(name, set()).add(path)

    def visit_Import(self, node):
        for a in node.names:
            if a.asname:
                self.bind(a.asname, a.name)
            else:
                top = a.name.split(".")[0]
                self.bind(top, top)
        self.import_nodes.append(node)

    def visit_ImportFrom(self, node):
        base = node.module or ""
        if node.level:
            pkg = self.modname.split(".")
            if not self.is_pkg:
                pkg = pkg[:-1]
            pkg = pkg[:len(pkg) - (node.level - 1)] if node.level > 1 else pkg
            base = ".".join(pkg + ([base] if base else []))
        for a in node.names:
            if a.name == "*":
                self.bind("*", base)
                continue
            self.bind(a.asname or a.name, base + "." + a.name)
        self.import_nodes.append((node, base))

    def visit_FunctionDef(self, node):
        self.local_defs.add(node.name)
        self.generic_visit(node)

    visit_AsyncFunctionDef = visit_FunctionDef

    def visit_ClassDef(self, node):
        self.local_defs.add(node.name)
        self.generic_visit(node)


class Resolver(object):
    def __init__(self, alias_maps):
        self.maps = alias_maps          # modname -> {name -> set(path)}

    def expand(self, path, depth=0):
        """follow re-exports of package modules: saml2_tophat.ElementTree.x -> xml.etree....x"""
        out = set()
        if depth > 6 or not path.startswith(PKG):
            return {path}
        parts = path.split(".")
        for i in range(len(parts) - 1, 0, -1):
            mod = ".".join(parts[:i])
            if mod in self.maps:
                nxt = parts[i]
                targets = self.maps[mod].get(nxt)
                if targets:
                    for t in targets:
                        out |= self.expand(".".join([t] + parts[i + 1:]), depth + 1)
                    return out
                for star in self.maps[mod].get("*", ()):
                    out |= self.expand(".".join([star] + parts[i:]), depth + 1)
                if out:
                    return out
                break
        return {path}

    def resolve(self, modname, names, extra):
        """['ElementTree','fromstring'] -> set of dotted paths, or None if the root is not import-bound"""
        root = names[0]
        amap = self.maps[modname]
        targets = set(amap.get(root, ())) | set(extra.get(root, ()))
        if not targets:
            for star in amap.get("*", ()):
                # `from m import *` : the name may come from there
                for p in self.expand(".".join([star] + names)):
                    if family(p):
                        targets.add(".".join(p.split(".")[:len(p.split(".")) - len(names) + 1]))
            if not targets:
                return None
        out = set()
        for t in targets:
            out |= self.expand(".".join([t] + names[1:]))
        return out


class Scan(ast.NodeVisitor):
    def __init__(self, rel, modname, resolver, aliases, optional_ok):
        self.rel, self.modname, self.res, self.al = rel, modname, resolver, aliases
        self.scope = []
        self.extra = {}      # re-bindings  x = <xml alias chain>
        self.sites, self.uses = [], []
        self.optional_ok = optional_ok
        self.done_chain = set()

    # ---- helpers
    def scope_name(self):
        return ".".join(self.scope) or "<module>"

    def tag(self, paths):
        if (self.rel == OPTIONAL_CLASS[0] and self.scope and self.scope[0] == OPTIONAL_CLASS[1] and self.optional_ok
                and paths and all(p.split(".")[0] in OPTIONAL_MODULES for p in paths)):
            return "OptionalBackend"
        return "Core"

    def add_site(self, node, kind, callee, path, kws=(), npos=0, star=False):
        if path is None:
            module = None
        else:
            parts = path.split(".")
            module = ".".join(parts[:-1]) if kind == "KCall" and len(parts) > 1 else path
        self.sites.append(dict(file=self.rel, line=node.lineno, scope=self.scope_name(), callee=callee, module=module,
                               kind=kind, tag=self.tag([path] if path else []), kws=list(kws), npos=npos, star=star))

    def add_use(self, node, module, attr):
        self.uses.append(dict(file=self.rel, line=node.lineno, scope=self.scope_name(), module=module, attr=attr))

    def resolve(self, names):
        return self.res.resolve(self.modname, names, self.extra)

    # ---- scopes
    def _scoped(self, node):
        self.scope.append(node.name)
        self.generic_visit(node)
        self.scope.pop()

    visit_FunctionDef = visit_AsyncFunctionDef = visit_ClassDef = _scoped

    # ---- imports of stdlib ET names are uses
    def visit_ImportFrom(self, node):
        base = None
        for n, b in [x for x in self.al.import_nodes if isinstance(x, tuple)]:
            if n is node:
                base = b
        for a in node.names:
            if a.name == "*":
                if et_split(base or ""):
                    self.add_use(node, base, "*")
                continue
            for p in self.res.expand((base or "") + "." + a.name):
                sp = et_split(p)
                if sp and sp[1] is not None:
                    self.add_use(node, sp[0], sp[1])

    # ---- re-bindings and assignments into XML modules
    def visit_Assign(self, node):
        self._assign(node, node.targets, node.value)

    def visit_AnnAssign(self, node):
        if node.value is not None:
            self._assign(node, [node.target], node.value)
        else:
            self.generic_visit(node)

    def visit_AugAssign(self, node):
        self._assign(node, [node.target], node.value)

    def _assign(self, node, targets, value):
        vch = chain(value)
        vpaths = self.resolve(vch) if vch else None
        for t in targets:
            tch = chain(t)
            if isinstance(t, ast.Name) and vpaths:
                xs = {p for p in vpaths if family(p)}
                if xs:
                    self.extra.setdefault(t.id, set()).update(xs)
            if tch and len(tch) > 1:
                tp = self.resolve(tch)
                for p in sorted(tp or ()):
                    if family(p) and not (et_split(p) and et_split(p)[1] == "_namespace_map"):
                        self.add_site(node, "KRebind", tch[-1], p)
            if isinstance(t, ast.Subscript):
                pass  # ElementTree._namespace_map[uri] = prefix : seen as an attribute use below
        self.generic_visit(node)

    # ---- calls
    def visit_Call(self, node):
        f = node.func
        names = chain(f)
        kws = []
        star = any(isinstance(a, ast.Starred) for a in node.args)
        for k in node.keywords:
            if k.arg is None:
                star = True
                continue
            v = k.value
            if isinstance(v, ast.Constant) and v.value is True:
                kv = "KwTrue"
            elif isinstance(v, ast.Constant) and v.value is False:
                kv = "KwFalse"
            else:
                kv = "KwOther"
            kws.append((k.arg, kv))
        npos = len(node.args)
        if names:
            paths = self.resolve(names)
            last = names[-1]
            if paths is None:
                # root not bound by an import
                bare = len(names) == 1
                root_is_local = names[0] in self.al.local_defs
                if last in STRICT_READERS and not (bare and root_is_local):
                    self.add_site(node, "KCall", last, None, kws, npos, star)
                elif bare and last in LOOSE_READERS and not root_is_local:
                    self.add_site(node, "KCall", last, None, kws, npos, star)
                # dynamic import of an XML module by constant name
                if last in ("__import__", "import_module") and node.args and isinstance(node.args[0], ast.Constant) \
                        and isinstance(node.args[0].value, str) and family(node.args[0].value):
                    self.add_site(node, "KDynImport", last, node.args[0].value)
            else:
                for p in sorted(paths):
                    if p.split(".")[-1] == "import_module" or p == "importlib.__import__":
                        if node.args and isinstance(node.args[0], ast.Constant) and isinstance(node.args[0].value, str) \
                                and family(node.args[0].value):
                            self.add_site(node, "KDynImport", last, node.args[0].value)
                    if not family(p):
                        continue
                    sp = et_split(p)
                    if sp and sp[1] in ET_BUILDING and p == sp[0] + "." + sp[1]:
                        continue    # building call: judged in et_uses
                    self.add_site(node, "KCall", p.split(".")[-1], p, kws, npos, star)
        else:
            # callee is not a plain name chain: f(...)(...), x[i].fromstring(...), getattr(...)(...)
            last = f.attr if isinstance(f, ast.Attribute) else None
            if last in STRICT_READERS:
                self.add_site(node, "KCall", last, None, kws, npos, star)
            if isinstance(f, ast.Call):
                g = chain(f.func)
                if g and g[-1] == "getattr" and f.args:
                    base = chain(f.args[0])
                    bp = self.resolve(base) if base else None
                    if bp and any(family(p) for p in bp):
                        self.add_site(node, "KCall", "getattr", None, kws, npos, star)
        self.generic_visit(node)

    # ---- attribute / name uses of stdlib ET aliases
    def visit_Attribute(self, node):
        names = chain(node)
        if names is None:
            self.generic_visit(node)
            return
        paths = self.resolve(names)
        for p in sorted(paths or ()):
            sp = et_split(p)
            if sp:
                self.add_use(node, sp[0], sp[1] if sp[1] is not None else "<object>")
        # do not descend: inner nodes are prefixes of this chain

    def visit_Name(self, node):
        paths = self.resolve([node.id])
        for p in sorted(paths or ()):
            sp = et_split(p)
            if sp:
                self.add_use(node, sp[0], sp[1] if sp[1] is not None else "<object>")


def scan_package():
    root = SRC + "/" + PKG
    files = []
    for d, _, fs in os.walk(root):
        for f in fs:
            if f.endswith(".py"):
                files.append(os.path.relpath(os.path.join(d, f), SRC))
    files.sort()
    if len(files) < 20:
        raise RuntimeError("C11 translator: only %d python files under %s" % (len(files), root))
    for a in ANCHORS:
        if PKG + "/" + a not in files:
            raise RuntimeError("C11 translator: anchor file %s is missing" % a)
    trees, amaps, als = {}, {}, {}
    for rel in files:
        with open(SRC + "/" + rel, "rb") as fh:
            src = fh.read()
        tree = ast.parse(src, filename=rel)      # SyntaxError -> translator failure (fail-closed)
        mn = modname_of(rel)
        al = Aliases(mn, rel.endswith("__init__.py"))
        al.visit(tree)
        trees[rel], amaps[mn], als[rel] = tree, al.map, al
    res = Resolver(amaps)
    optional_ok = all(importlib.util.find_spec(m) is None for m in OPTIONAL_MODULES)
    sites, uses = [], []
    for rel in files:
        sc = Scan(rel, modname_of(rel), res, als[rel], optional_ok)
        sc.visit(trees[rel])
        sites += sc.sites
        uses += sc.uses
    key = lambda r: (r["file"], r["line"], r["scope"], str(r.get("module")), r.get("callee", r.get("attr")))  # noqa
    sites = _dedup(sorted(sites, key=key))
    uses = _dedup(sorted(uses, key=key))
    return dict(files=files, sites=sites, uses=uses, optional_backend_modules_absent=optional_ok)


def _dedup(rows):
    out, seen = [], set()
    for r in rows:
        k = repr(sorted(r.items()))
        if k not in seen:
            seen.add(k)
            out.append(r)
    return out


HDR = ("(* GENERATED from /repo/src/saml2_tophat by harness/translate_c11.py on every run - do not edit *)\n"
       "From PV Require Import Lib.Base Model.XmlEntry.\nOpen Scope N_scope.\n\n")


def coq_site(r):
    return "  mk_site %s %d %s %s %s %s %s [%s] %d %s" % (
        cstr(r["file"]), r["line"], cstr(r["scope"]), cstr(r["callee"]),
        "None" if r["module"] is None else "(Some %s)" % cstr(r["module"]),
        r["kind"], r["tag"], "; ".join("(%s, %s)" % (cstr(k), v) for k, v in r["kws"]), r["npos"],
        "true" if r["star"] else "false")


def coq_use(r):
    return "  mk_use %s %d %s %s %s" % (cstr(r["file"]), r["line"], cstr(r["scope"]), cstr(r["module"]), cstr(r["attr"]))


def render(inv):
    return (HDR + "Definition scanned_files : N := %d.\n\n" % len(inv["files"]) +
            "Definition optional_backend_modules_absent : bool := %s.\n\n" % ("true" if inv["optional_backend_modules_absent"] else "false") +
            "Definition xml_sites : list site := [\n" + ";\n".join(coq_site(r) for r in inv["sites"]) + "\n].\n\n" +
            "Definition et_uses : list et_use := [\n" + ";\n".join(coq_use(r) for r in inv["uses"]) + "\n].\n")


def regen_xmlsites():
    inv = scan_package()
    write_if_changed(COQ + "/Gen/XmlSites.v", render(inv))
    return inv


if __name__ == "__main__":
    import json
    inv = scan_package()
    print(json.dumps(dict(sites=inv["sites"], uses=inv["uses"], nfiles=len(inv["files"])), indent=1))
