"""ctx.correspond with a retry of shards that were killed by the environment
(out-of-memory kill / time-out of a coqc process on a loaded machine).  Same
bookkeeping as core.Ctx.correspond; a shard that fails for any other reason, or
still fails after the retries, is reported as a broken model evaluation."""
import re
import time

import core


def correspond(ctx, unit, imports, model, ctype, cases, shard=300, timeout=600, retries=3):
    if not cases:
        return []
    pairs = [(c["coq"], core.cval(c["impl"])) for c in cases]
    mism, errors = core.run_model(ctx.prop, unit, imports, model, pairs, ctype, shard, timeout)
    for attempt in range(retries):
        retry, keep = [], []
        for e in errors:
            m = re.search(r"cases_%s_(\d+)\.v: rc=(137|124|-9|-15|143)\b" % re.escape(unit), e)
            if m:
                retry.append(int(m.group(1)))
            else:
                keep.append(e)
        errors = keep
        if not retry:
            break
        ctx.count("shards-retried:" + unit, len(retry))
        time.sleep(5 * (attempt + 1))
        for k in retry:       # one at a time, in halves: less memory
            sub = pairs[k:k + shard]
            half = max(1, (len(sub) + 1) // 2)
            for j in range(0, len(sub), half):
                m2, e2 = core.run_model(ctx.prop, unit, imports, model, sub[j:j + half], ctype, half, timeout)
                mism += [k + j + i for i in m2]
                errors += [re.sub(r"cases_%s_0\.v" % re.escape(unit), "cases_%s_%d.v" % (unit, k), x) for x in e2]
    mism = sorted(set(mism))
    ctx.evaluations += len(cases)
    ctx.unit(unit, cases=len(cases), disagreements=len(mism))
    for e in errors:
        ctx.broken.append(("model-evaluation:" + unit, e))
    out = []
    if mism:
        exprs = ["(%s) (%s)" % (model, cases[i]["coq"]) for i in mism[:8]]
        shown = core.eval_model(ctx.prop, imports, exprs)
        for j, i in enumerate(mism):
            d = core.Disagreement(unit, cases[i], cases[i]["impl"], shown[j] if j < len(shown) else None)
            ctx.disagreements.append(d)
            out.append(d)
    return out
