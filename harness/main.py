"""./check driver.  See DESIGN.md section 5."""
import argparse
import importlib
import json
import logging
import os
import re
import sys
import time
import traceback

sys.path.insert(0, os.path.dirname(os.path.abspath(__file__)))
import core  # noqa: E402
from core import Ctx  # noqa: E402

COMMON_TRUSTED = [
    "Coq 8.16.1 kernel (coqc); vm_compute (the bytecode VM) is used for table obligations and for evaluating the model; native_compute is not used",
    "the hand-written Gallina model is a re-statement of the Python code; its agreement with /repo is TESTED on every run by the correspondence units listed under coverage.correspondence_units (exhaustive where the unit says so), not proved",
    "the harness itself: generators, canonicalisation to the `val` type, Python->Coq literal printer (harness/core.py), and the implementation-level property oracles",
]


def all_props():
    return [json.loads(l)["id"] for l in open(core.VERIF + "/properties.jsonl")]


def regen_all():
    """regenerate EVERY coq/Gen table from /repo's working tree: the tables of harness/translate.py and the
    `regen` of every property module (a Gen file left behind by a run against a scratch copy of the library, or
    committed from one, must never survive into a build)"""
    import translate
    out = translate.regen_all()
    import glob
    for f in sorted(glob.glob(os.path.dirname(os.path.abspath(__file__)) + "/props/c*.py")):
        name = os.path.basename(f)[:-3]
        mod = importlib.import_module("props." + name)
        if hasattr(mod, "regen"):
            out.append(mod.regen(Ctx(name.upper(), "quick", 1)))
    return out


def setup():
    t0 = time.time()
    try:
        regen_all()
    except Exception:
        traceback.print_exc()
        print("setup: table regeneration failed")
        return 1
    ok, log, cmd = core.coq_make([], timeout=3000, clean=True)
    print(log[-3000:])
    print("setup: %s in %.0fs (%s)" % ("built" if ok else "BUILD FAILED", time.time() - t0, cmd))
    return 0 if ok else 1


def failing_units(log):
    """names of .v files whose compilation failed, from a `make -k` log"""
    bad = []
    for m in re.finditer(r'File "\./([^"]+\.v)", line (\d+), characters [^\n]*\n(Error:[^\n]*(?:\n[^\n]+){0,6})', log):
        bad.append((m.group(1), int(m.group(2)), m.group(3)[:600]))
    for m in re.finditer(r"make[^\n]*\*\*\* \[[^\]]*?([A-Za-z0-9_/]+\.vo)\]", log):
        f = m.group(1)[:-1]
        if not any(b[0] == f for b in bad):
            bad.append((f, 0, "make target failed (see log)"))
    return bad


def theorem_at(path, line):
    """name of the last Theorem/Lemma starting at or before `line`"""
    name = None
    try:
        for i, l in enumerate(open(core.COQ + "/" + path), 1):
            if i > line:
                break
            m = core.THM_RE.match(l)
            if m:
                name = m.group(2)
    except OSError:
        pass
    return name


def run_check(prop, tier, seed, replay=None):
    logging.disable(logging.CRITICAL)
    ctx = Ctx(prop, tier, seed)
    try:
        mod = importlib.import_module("props." + prop.lower())
    except ModuleNotFoundError:
        print("no check is built for %s" % prop)
        return 2
    if replay:
        payload = json.load(open(replay))
        return mod.replay(ctx, payload)

    import warnings
    warnings.simplefilter("ignore")
    warnings.showwarning = lambda *a, **k: None   # pysaml2 modules reset the filters at import time
    ctx.trusted = list(COMMON_TRUSTED) + list(getattr(mod, "TRUSTED", []))
    ctx.assumptions = list(getattr(mod, "ASSUMPTIONS", []))
    ctx.rule = getattr(mod, "RULE", "")

    # 1. regenerate the tables this property's theorems mention
    try:
        if hasattr(mod, "regen"):
            mod.regen(ctx)
    except Exception as e:  # translator is fail-closed
        ctx.broken.append(("translator", "%s: %s" % (type(e).__name__, e)))
        traceback.print_exc()

    # 2. kernel: build Props/<prop>.vo and everything it depends on
    ok, log, cmd = core.coq_make(["-k", "Props/%s.vo" % prop])
    ctx.checker_cmds.append(cmd)
    open(ctx.work + "/make.log", "w").write(log)
    if not ok:
        for f, line, msg in failing_units(log):
            th = theorem_at(f, line) if line else None
            ctx.broken.append(("%s%s" % (f, ":" + th if th else ""), msg))
        if not ctx.broken:
            ctx.broken.append(("build", log[-1500:]))
    hits = core.forbidden_scan()
    for h in hits:
        ctx.broken.append(("forbidden-construct", h))

    # 3. obligations = theorems of Props/<prop>.v, each with its assumption set
    names, printed, assumptions = [], [], {}
    if ok:
        names, printed, assumptions, ok2, out, cmd2 = core.props_obligations(prop)
        ctx.checker_cmds.append(cmd2)
        if not ok2:
            ctx.broken.append(("Props/%s.v" % prop, out[-1500:]))
    else:
        try:
            txt = open("%s/Props/%s.v" % (core.COQ, prop)).read()
            names = [m.group(2) for m in core.THM_RE.finditer(txt)]
        except OSError:
            pass
    ctx.obligations = max(len(names), 1)
    used_axioms = set()
    discharged = 0
    if ok and not [b for b in ctx.broken if b[0].startswith("Props/")]:
        for n in names:
            ax = assumptions.get(n)
            if n not in printed:
                ctx.broken.append(("Props/%s.v:%s" % (prop, n), "no Print Assumptions for this theorem"))
                continue
            if ax is None:
                ctx.broken.append(("Props/%s.v:%s" % (prop, n), "could not read its Print Assumptions output"))
                continue
            bad = [a for a in ax if a.split(".")[-1] not in core.STDLIB_AXIOMS]
            used_axioms.update(ax)
            if bad:
                ctx.broken.append(("Props/%s.v:%s" % (prop, n), "depends on non-stdlib axioms: %s" % bad))
            else:
                discharged += 1
    ctx.discharged = discharged
    ctx.extra["theorems"] = names
    ctx.extra["axioms_used"] = sorted(used_axioms) if used_axioms else ["none: every property theorem is `Closed under the global context`"]
    if used_axioms:
        ctx.trusted.append("stdlib axioms reported by Print Assumptions: " + ", ".join(sorted(used_axioms)))

    # 4. correspondence + implementation-level oracle
    try:
        mod.run(ctx)
    except Exception as e:
        traceback.print_exc()
        ctx.broken.append(("harness", "%s: %s" % (type(e).__name__, e)))

    # 4b. thorough: independent re-check of the compiled proofs
    if tier == "thorough" and ok and not ctx.broken:
        okc, outc, cmdc = core.coqchk(prop)
        ctx.checker_cmds.append(cmdc)
        ctx.extra["coqchk"] = outc[-3000:]
        if not okc:
            ctx.broken.append(("coqchk", outc[-1500:]))

    # 5. if something no longer checks, search for a concrete failing input
    if (ctx.broken or ctx.disagreements) and hasattr(mod, "cex_search"):
        try:
            mod.cex_search(ctx)
        except Exception as e:
            traceback.print_exc()
            ctx.notes.append("cex_search crashed: %s" % e)

    # 6. verdict
    known = core.known_keys(prop)
    violations = []
    seen = set()
    for key, what, rep in ctx.oracle_failures:
        if key in seen:
            continue
        seen.add(key)
        if key in known:
            line = "KNOWN-FINDING: property=%s %s [%s]" % (prop, known[key].get("what", what), key)
            ctx.known_lines.append(line)
            print(line)
        else:
            path = core.write_replay(ctx, "counterexample", {"key": key, "what": what, "input": rep})
            violations.append("VIOLATION property=%s replay=%s" % (prop, path))
            print("  violation: %s (%s)" % (what, key))
    unexplained = bool(ctx.broken or ctx.disagreements)
    if unexplained and not violations:
        payload = {
            "broken_obligations": [{"name": n, "log": l} for n, l in ctx.broken[:10]],
            "broken_correspondence": [
                {"unit": d.unit, "case": d.case.get("show", d.case.get("id")), "implementation": d.impl,
                 "model": d.model} for d in ctx.disagreements[:10]],
            "what": "the theorem(s) / correspondence unit(s) named here no longer check; the search for a concrete failing input found none",
        }
        path = core.write_replay(ctx, "broken-obligation" if ctx.broken else "broken-correspondence", payload)
        violations.append("VIOLATION property=%s replay=%s no-failing-input-found" % (prop, path))
    for n, l in ctx.broken[:10]:
        print("  broken: %s: %s" % (n, l[:400].replace("\n", " | ")))
    for d in ctx.disagreements[:10]:
        print("  disagreement[%s]: case=%s impl=%r model=%s" % (
            d.unit, json.dumps(core.jsonable(d.case.get("show", d.case.get("id"))))[:300], d.impl, d.model))
    core.write_evidence(ctx, len(violations))
    for v in violations[:20]:
        print(v)
    print("%s %s: obligations %d/%d, %d evaluations (%d non-trivial), %d disagreements, %d oracle failures (%d known), %.1fs" % (
        prop, tier, ctx.discharged, ctx.obligations, ctx.evaluations, len(ctx.nontrivial),
        len(ctx.disagreements), len(ctx.oracle_failures), len(ctx.known_lines), time.time() - ctx.t0))
    return 1 if violations else 0


def main():
    ap = argparse.ArgumentParser()
    ap.add_argument("prop", nargs="?")
    ap.add_argument("--tier", default=os.environ.get("VERIF_TIER", "quick"))
    ap.add_argument("--replay")
    ap.add_argument("--setup", action="store_true")
    a = ap.parse_args()
    if a.setup:
        sys.exit(setup())
    seed = int(os.environ.get("VERIF_SEED", "20260926"))
    sys.exit(run_check(a.prop, a.tier, seed, a.replay))


if __name__ == "__main__":
    main()
