"""Correspondence runner with SHARED sub-terms (used by props/c19.py).

Same contract as Ctx.correspond (the model is evaluated by vm_compute inside
coqc, the comparison is done by Coq's `mismatches`, disagreements are
registered on the ctx), but
  * a block of Coq `Definition`s (`defs`) can precede the cases, so that long
    operation lists are written once and referred to by name, and
  * any sub-value of the expected implementation value wrapped in `Sh(...)` is
    emitted once per shard as `Definition e_k : val` — exhaustive histories
    reach few distinct states, so thousands of cases share a handful of
    observation vectors.
"""
import os
import re
from concurrent.futures import ThreadPoolExecutor

import core


class Sh(object):
    """a shared sub-value of an expected result"""
    __slots__ = ("v",)

    def __init__(self, v):
        self.v = v


def plain(v):
    """expected value with the Sh wrappers removed (for reports)"""
    if isinstance(v, Sh):
        return plain(v.v)
    if isinstance(v, (list, tuple)):
        return [plain(x) for x in v]
    return v


def _cval(v, table, strs):
    """Coq text of an expected value; Sh nodes and strings are emitted once and referred to by name
    (coqc spends its time elaborating literals, not evaluating the model)"""
    if isinstance(v, Sh):
        t = _cval(v.v, table, strs)
        name = table.get(t)
        if name is None:
            name = table[t] = "e_%d" % len(table)
        return name
    if isinstance(v, (list, tuple)):
        return "(VL [" + "; ".join(_cval(x, table, strs) for x in v) + "])"
    if isinstance(v, core.Exn):
        return "(VE %s)" % _sname(v.name, strs)
    if isinstance(v, (str, bytes)):
        return "(VS %s)" % _sname(v, strs)
    return core.cval(v)


def _sname(s, strs):
    name = strs.get(s)
    if name is None:
        name = strs[s] = "s_%d" % len(strs)
    return name


def _shard_text(imports, defs, model, ctype, chunk):
    table, strs = {}, {}
    rows = ["(%s, %s)" % (c["coq"], _cval(c["impl"], table, strs)) for c in chunk]
    text = "From PV Require Import Lib.Base %s.\nOpen Scope N_scope.\n%s\n" % (imports, defs)
    for s, name in strs.items():
        text += "Definition %s : str := %s.\n" % (name, core.cstr(s))
    for t, name in table.items():
        text += "Definition %s : val := %s.\n" % (name, t)
    text += "Definition cases : list (%s * val) := [\n %s\n].\n" % (ctype, ";\n ".join(rows))
    text += "Eval vm_compute in (mismatches (%s) cases).\n" % model
    return text


def correspond(ctx, unit, imports, model, ctype, cases, defs="", shard=400, timeout=900):
    if not cases:
        return []
    d = ctx.work
    jobs = []
    for k in range(0, len(cases), shard):
        jobs.append((k, "%s/cases_%s_%d.v" % (d, unit, k), _shard_text(imports, defs, model, ctype, cases[k:k + shard])))
    mism, errors = [], []

    def one(job):
        k, path, text = job
        rc, out = core._coqc_text(path, text, timeout)
        return k, path, rc, out
    with ThreadPoolExecutor(core.NCPU) as ex:
        for k, path, rc, out in ex.map(one, jobs):
            lst = core.parse_nlist(out) if rc == 0 else None
            if lst is None:
                errors.append("%s: rc=%s %s" % (path, rc, out[-1500:]))
            else:
                mism += [k + i for i in lst]
                try:
                    os.unlink(path)
                except OSError:
                    pass
    mism.sort()
    ctx.evaluations += len(cases)
    ctx.unit(unit, cases=len(cases), disagreements=len(mism))
    for e in errors:
        ctx.broken.append(("model-evaluation:" + unit, e))
    out = []
    if mism:
        shown = []
        text = "From PV Require Import Lib.Base %s.\nOpen Scope N_scope.\n%s\n" % (imports, defs)
        for i in mism[:6]:
            text += "Eval vm_compute in ((%s) (%s)).\n" % (model, cases[i]["coq"])
        rc, o = core._coqc_text("%s/show_%s.v" % (d, unit), text, 300)
        if rc == 0:
            shown = [re.sub(r"\s+", " ", p.strip())[:3000] for p in re.split(r"^\s*=\s", o, flags=re.M)[1:]]
        for j, i in enumerate(mism):
            c = dict(cases[i])
            dis = core.Disagreement(unit, c, plain(c["impl"]), shown[j] if j < len(shown) else None)
            ctx.disagreements.append(dis)
            out.append(dis)
    return out
