#!/bin/bash
# MANIFEST.setup_cmd: build the whole Coq development from clean (full .vo build).
set -e
cd "$(dirname "$0")"
exec ./check --setup
