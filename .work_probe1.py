import sys; sys.path.insert(0,'/repo/src')
import logging; logging.disable(logging.CRITICAL)
import saml2_tophat.sigver as sv, saml2_tophat.pack as pk
print("sigver.urlencode:", sv.urlencode.__module__, sv.urlencode)
print("pack.urlencode:", pk.urlencode.__module__, pk.urlencode)
for s in ["a~b", "a b", "é", "/", "a*b", "~", "x'y", "(", "!"]:
    print(repr(s), sv.urlencode({"RelayState": s}), pk.urlencode({"RelayState": s}))
# all bytes diff
import urllib.parse
diff=[]
for c in range(256):
    a=sv.urlencode({"k": bytes([c])}); b=pk.urlencode({"k": bytes([c])})
    if a!=b: diff.append((c,a,b))
print("byte diffs:", diff)
diff=[]
for c in list(range(0x250))+[0x20ac,0x1f600, 0xd800]:
    try:
        a=sv.urlencode({"k": chr(c)})
    except Exception as e: a="EXC "+type(e).__name__
    try:
        b=pk.urlencode({"k": chr(c)})
    except Exception as e: b="EXC "+type(e).__name__
    if a!=b: diff.append((c,a,b))
print("str diffs:", diff)
